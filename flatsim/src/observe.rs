//! Observation of read items: where most oracles live.
//!
//! `Observe` is implemented for every read-item type the crate hands out. An observation compares
//! the item with the model value through *every* accessor (len, is_empty, positional get,
//! iteration, owned conversion), validates string bytes as untrusted, probes out-of-bounds
//! positions under `catch` (they must fail-stop), and repeats the battery on the owned-borrowed
//! representation. Every loop is bounded by the model's expectation.

use crate::guard::catch;
use crate::value::Value;
use flatcontainer::impls::codec::{Codec, CodecRegion};
use flatcontainer::impls::columns::ReadColumns;
use flatcontainer::impls::deduplicate::{CollapseSequence, ConsecutiveIndexPairs};
use flatcontainer::impls::huffman_container::HuffmanContainer;
use flatcontainer::impls::index::IndexContainer;
use flatcontainer::impls::slice::ReadSlice;
use flatcontainer::{ColumnsRegion, IntoOwned, MirrorRegion, OptionRegion, OwnedRegion, Region, ResultRegion, SliceRegion, StringRegion};

/// What kind of disagreement an observer found. The simulator maps (context, kind) to the
/// property whose oracle it is.
#[derive(Clone, Copy, Debug, PartialEq, Eq, Hash)]
pub enum Kind {
    /// content differs from the model (found via iteration / owned conversion / direct compare)
    Content,
    /// a `&str` handed out is not valid UTF-8
    Utf8,
    /// a `&str` handed out is valid but not byte-identical to the pushed string
    Str,
    /// len / is_empty / get / iter / into_owned disagree with each other
    Agree,
    /// positional `get(i)`, i < len, returned an element that is not the i-th of this item
    Get,
    /// `get(i)`, i >= len, returned instead of panicking
    Oob,
    /// an IntoOwned law failed (into_owned / borrow_as / clone_onto / reborrow)
    Law,
    /// the library panicked while reading an item it issued
    Panic,
}

#[derive(Clone, Debug)]
pub struct Fail {
    pub kind: Kind,
    pub detail: String,
    /// the failure was found on the owned-borrowed representation
    pub borrowed: bool,
}

impl Fail {
    pub fn new(kind: Kind, detail: impl Into<String>) -> Self {
        Fail { kind, detail: detail.into(), borrowed: false }
    }
}

pub type Res = Result<(), Fail>;

macro_rules! probes {
    ($($name:ident),* $(,)?) => {
        #[derive(Clone, Copy, Debug, PartialEq, Eq)]
        #[allow(non_camel_case_types)]
        pub enum Probe { $($name),* }
        pub const PROBE_NAMES: &[&str] = &[$(stringify!($name)),*];
        pub const NPROBES: usize = PROBE_NAMES.len();
    };
}

probes!(
    // observers
    oob_probe_panicked,
    oob_on_item_with_successor,
    borrowed_repr_checked,
    empty_slice_item,
    nonempty_slice_item,
    multibyte_str_checked,
    empty_str_checked,
    row_empty,
    row_nonempty,
    huff_encoded_item,
    huff_raw_item,
    // simulator
    push,
    push_form_noncanonical,
    clear,
    clear_nonempty,
    push_after_clear,
    clone_made,
    clone_from_made,
    clone_from_onto_longer,
    clone_from_onto_shorter,
    merge_made,
    merge_zero_sources,
    merge_many_sources,
    merge_of_lockstep_twins,
    restart_made,
    restart_with_history,
    reserve_items_call,
    reserve_regions_call,
    stack_reserve_call,
    lockstep_step,
    diverge_step,
    copy_item_region,
    copy_item_owned,
    collapse_hit,
    collapse_miss,
    dense_index_checked,
    realloc_moved,
    reread_all,
    handles_reread,
    refusal_fired,
    retired,
    extend_call,
    from_iter_call,
    size_hint_lower_zero,
    size_hint_exact,
    iter_clone_checked,
    debug_checked,
    heap_checked,
    laws_checked,
    bulk_push,
    bulk_items,
    clear_after_65536_items,
    huge_zst_item_pushed,
    push_after_offsets_exceed_u32,
    row_longer_than_all_earlier,
    roomy_vec_form_used,
    scratch_longer,
    scratch_shorter,
);

pub struct Cx {
    /// probe out-of-bounds positions (C13)
    pub oob: bool,
    /// repeat the battery on `borrow_as(&into_owned(x))`
    pub borrowed: bool,
    /// full accessor battery (get for every i, iter to len+1, into_owned); false = cheap pass
    pub full: bool,
    /// set by callers: the item under observation is not the last one pushed into its region
    pub has_successor: bool,
    pub probes: [u64; NPROBES],
    depth: usize,
}

impl Default for Cx {
    fn default() -> Self {
        Cx { oob: false, borrowed: false, full: true, has_successor: false, probes: [0; NPROBES], depth: 0 }
    }
}

impl Cx {
    #[inline]
    pub fn hit(&mut self, p: Probe) {
        self.probes[p as usize] += 1;
    }
    #[inline]
    pub fn hits(&mut self, p: Probe, n: u64) {
        self.probes[p as usize] += n;
    }
}

/// Observation is dispatched on the *region* type (all region types are nameable, whereas e.g. the
/// Huffman read item lives in a private module).
pub trait Obs: Region {
    fn obs<'a>(item: Self::ReadItem<'a>, v: &Self::Owned, cx: &mut Cx) -> Res
    where
        Self: 'a;
}

// ---------------------------------------------------------------------------------------------
// Leaves
// ---------------------------------------------------------------------------------------------

impl<T> Obs for MirrorRegion<T>
where
    T: Value,
    for<'x> T: flatcontainer::Index + IntoOwned<'x, Owned = T>,
{
    #[inline]
    fn obs<'a>(item: T, v: &T, _cx: &mut Cx) -> Res
    where
        Self: 'a,
    {
        if item.beq(v) {
            Ok(())
        } else {
            Err(Fail::new(Kind::Content, format!("read {} expected {}", item.render(), v.render())))
        }
    }
}

fn hex(bytes: &[u8]) -> String {
    let mut s = String::new();
    for b in bytes.iter().take(48) {
        s.push_str(&format!("{b:02x}"));
    }
    if bytes.len() > 48 {
        s.push('…');
    }
    s
}

pub fn obs_str(item: &str, v: &String, cx: &mut Cx) -> Res {
    // The bytes are untrusted: the region builds the &str with from_utf8_unchecked.
    let bytes = item.as_bytes();
    if std::str::from_utf8(bytes).is_err() {
        return Err(Fail::new(
            Kind::Utf8,
            format!("&str with invalid UTF-8 bytes {} (expected {:?})", hex(bytes), v),
        ));
    }
    if bytes != v.as_bytes() {
        return Err(Fail::new(Kind::Str, format!("read {:?} expected {:?}", item, v)));
    }
    if bytes.is_empty() {
        cx.hit(Probe::empty_str_checked);
    } else if !bytes.is_ascii() {
        cx.hit(Probe::multibyte_str_checked);
    }
    Ok(())
}

impl<R> Obs for StringRegion<R>
where
    for<'x> R: Region<ReadItem<'x> = &'x [u8]> + 'x,
{
    fn obs<'a>(item: &'a str, v: &String, cx: &mut Cx) -> Res
    where
        Self: 'a,
    {
        obs_str(item, v, cx)
    }
}

/// Element types of `OwnedRegion<T>` / `Vec<T>`-as-region: plain data compared bit-exactly.
/// Zero-sized elements are compared by length only (slices of 2^33 units are never iterated).
pub trait Elem: Value {
    fn slice_beq(a: &[Self], b: &[Self]) -> bool {
        a.len() == b.len() && a.iter().zip(b).all(|(x, y)| x.beq(y))
    }
}
impl Elem for () {
    fn slice_beq(a: &[Self], b: &[Self]) -> bool {
        a.len() == b.len()
    }
}
macro_rules! elem { ($($t:ty),*) => { $(impl Elem for $t {})* } }
elem!(bool, char, u8, u16, u32, u64, u128, usize, i8, i16, i32, i64, i128, isize, f32, f64, String);

fn render_slice<T: Elem>(s: &[T]) -> String {
    if std::mem::size_of::<T>() == 0 {
        return format!("[(); {}]", s.len());
    }
    let v: Vec<String> = s.iter().take(12).map(Value::render).collect();
    format!("[{}{}] (len {})", v.join(","), if s.len() > 12 { ",…" } else { "" }, s.len())
}

pub fn obs_slice<T: Elem>(item: &[T], v: &[T]) -> Res {
    if T::slice_beq(item, v) {
        Ok(())
    } else {
        Err(Fail::new(Kind::Content, format!("read {} expected {}", render_slice(item), render_slice(v))))
    }
}

impl<T: Elem> Obs for OwnedRegion<T> {
    fn obs<'a>(item: &'a [T], v: &Vec<T>, _cx: &mut Cx) -> Res
    where
        Self: 'a,
    {
        obs_slice(item, v)
    }
}

impl<C: Codec, R> Obs for CodecRegion<C, R>
where
    for<'x> R: Region<ReadItem<'x> = &'x [u8]> + 'x,
{
    fn obs<'a>(item: &'a [u8], v: &Vec<u8>, _cx: &mut Cx) -> Res
    where
        Self: 'a,
    {
        obs_slice(item, v)
    }
}

/// `Vec<T>` used as a region reads `&T`.
impl<T: Value> Obs for Vec<T> {
    fn obs<'a>(item: &'a T, v: &T, _cx: &mut Cx) -> Res
    where
        Self: 'a,
    {
        if item.beq(v) {
            Ok(())
        } else {
            Err(Fail::new(Kind::Content, format!("read {} expected {}", item.render(), v.render())))
        }
    }
}

// ---------------------------------------------------------------------------------------------
// Fan-out and transparent wrappers
// ---------------------------------------------------------------------------------------------

impl<R: Obs> Obs for OptionRegion<R> {
    fn obs<'a>(item: Option<R::ReadItem<'a>>, v: &Option<R::Owned>, cx: &mut Cx) -> Res
    where
        Self: 'a,
    {
        match (item, v) {
            (None, None) => Ok(()),
            (Some(x), Some(y)) => R::obs(x, y, cx),
            (None, Some(_)) => Err(Fail::new(Kind::Content, "read None expected Some")),
            (Some(_), None) => Err(Fail::new(Kind::Content, "read Some expected None")),
        }
    }
}

impl<T: Obs, E: Obs> Obs for ResultRegion<T, E> {
    fn obs<'a>(item: Result<T::ReadItem<'a>, E::ReadItem<'a>>, v: &Result<T::Owned, E::Owned>, cx: &mut Cx) -> Res
    where
        Self: 'a,
    {
        match (item, v) {
            (Ok(x), Ok(y)) => T::obs(x, y, cx),
            (Err(x), Err(y)) => E::obs(x, y, cx),
            (Ok(_), Err(_)) => Err(Fail::new(Kind::Content, "read Ok expected Err")),
            (Err(_), Ok(_)) => Err(Fail::new(Kind::Content, "read Err expected Ok")),
        }
    }
}

macro_rules! obs_tuple {
    ($reg:ident; $($n:ident $i:tt),+) => {
        impl<$($n: Obs),+> Obs for flatcontainer::impls::tuple::$reg<$($n),+>
        where $(<$n as Region>::Index: flatcontainer::Index),+
        {
            fn obs<'a>(item: ($($n::ReadItem<'a>,)+), v: &($($n::Owned,)+), cx: &mut Cx) -> Res where Self: 'a {
                $(
                    $n::obs(item.$i, &v.$i, cx).map_err(|mut f| { f.detail = format!("field {}: {}", $i, f.detail); f })?;
                )+
                Ok(())
            }
        }
    };
}
obs_tuple!(TupleARegion; A 0);
obs_tuple!(TupleABRegion; A 0, B 1);
obs_tuple!(TupleABCRegion; A 0, B 1, C 2);
obs_tuple!(TupleABCDRegion; A 0, B 1, C 2, D 3);
obs_tuple!(TupleABCDEFGHRegion; A 0, B 1, C 2, D 3, E 4, F 5, G 6, H 7);

impl<R: Obs> Obs for CollapseSequence<R> {
    fn obs<'a>(item: R::ReadItem<'a>, v: &R::Owned, cx: &mut Cx) -> Res
    where
        Self: 'a,
    {
        R::obs(item, v, cx)
    }
}

impl<R, O> Obs for ConsecutiveIndexPairs<R, O>
where
    R: Obs + Region<Index = (usize, usize)>,
    O: IndexContainer<usize>,
{
    fn obs<'a>(item: R::ReadItem<'a>, v: &R::Owned, cx: &mut Cx) -> Res
    where
        Self: 'a,
    {
        R::obs(item, v, cx)
    }
}

// ---------------------------------------------------------------------------------------------
// Slices and rows: the full accessor battery
// ---------------------------------------------------------------------------------------------

fn at(mut f: Fail, what: &str, i: usize) -> Fail {
    f.detail = format!("{what}[{i}]: {}", f.detail);
    f
}

const OOB_OFFSETS: [usize; 4] = [0, 1, 2, 7];
/// absolute positions near usize::MAX: `start + index` must not wrap around into the region
const OOB_HUGE: [usize; 5] = [usize::MAX, usize::MAX - 1, usize::MAX - 2, usize::MAX - 5, usize::MAX / 2 + 1];

impl<R, O> Obs for SliceRegion<R, O>
where
    R: Obs,
    O: IndexContainer<R::Index>,
    R::Owned: Value,
{
    fn obs<'a>(item: ReadSlice<'a, R, O>, v: &Vec<R::Owned>, cx: &mut Cx) -> Res
    where
        Self: 'a,
    {
        let n = v.len();
        let len = item.len();
        if len != n {
            return Err(Fail::new(Kind::Content, format!("slice item len() = {len}, expected {n}")));
        }
        if n == 0 {
            cx.hit(Probe::empty_slice_item);
        } else {
            cx.hit(Probe::nonempty_slice_item);
        }
        if item.is_empty() != (n == 0) {
            return Err(Fail::new(Kind::Agree, format!("is_empty() = {} but len() = {len}", item.is_empty())));
        }
        // iteration, bounded to n + 1
        let mut count = 0usize;
        for (i, x) in item.iter().take(n + 1).enumerate() {
            if i >= n {
                return Err(Fail::new(Kind::Agree, format!("iter() yields more than len() = {n} elements")));
            }
            cx.depth += 1;
            let r = R::obs(x, &v[i], cx);
            cx.depth -= 1;
            r.map_err(|f| at(f, "iter", i))?;
            count += 1;
        }
        if count != n {
            return Err(Fail::new(Kind::Agree, format!("iter() yields {count} elements, len() = {n}")));
        }
        if cx.full {
            for i in 0..n {
                let got = catch(|| {
                    let it = item.get(i);
                    cx.depth += 1;
                    let r = R::obs(it, &v[i], cx);
                    cx.depth -= 1;
                    r
                });
                match got {
                    Ok(Ok(())) => {}
                    Ok(Err(mut f)) => {
                        if matches!(f.kind, Kind::Content | Kind::Str) {
                            f.kind = Kind::Get;
                        }
                        return Err(at(f, "get", i));
                    }
                    Err(p) => {
                        return Err(Fail::new(Kind::Panic, format!("get({i}) of len {n}: {}", p.short())));
                    }
                }
            }
            let owned = item.into_owned();
            if !owned.beq(v) {
                return Err(Fail::new(
                    Kind::Agree,
                    format!("into_owned() = {} differs from the item's elements {}", owned.render(), v.render()),
                ));
            }
        }
        if cx.oob && cx.depth == 0 {
            for i in OOB_OFFSETS.iter().map(|off| n + off).chain(OOB_HUGE.iter().copied()) {
                let r = catch(|| {
                    let _ = item.get(i);
                });
                if r.is_ok() {
                    return Err(Fail::new(
                        Kind::Oob,
                        format!("get({i}) on a slice item of len {n} returned instead of panicking"),
                    ));
                }
                cx.hit(Probe::oob_probe_panicked);
                if cx.has_successor {
                    cx.hit(Probe::oob_on_item_with_successor);
                }
            }
        }
        if cx.borrowed && cx.depth == 0 {
            // the owned-borrowed representation of the same item
            let owned = item.into_owned();
            let b: ReadSlice<'_, R, O> = IntoOwned::borrow_as(&owned);
            let saved = (cx.borrowed, cx.has_successor);
            cx.borrowed = false;
            cx.has_successor = false;
            let r = Self::obs(b, v, cx);
            cx.borrowed = saved.0;
            cx.has_successor = saved.1;
            cx.hit(Probe::borrowed_repr_checked);
            r.map_err(|mut f| {
                f.borrowed = true;
                f.detail = format!("borrowed repr: {}", f.detail);
                f
            })?;
        }
        Ok(())
    }
}

impl<R, O> Obs for ColumnsRegion<R, O>
where
    R: Obs,
    O: IndexContainer<usize>,
    R::Owned: Value,
{
    fn obs<'a>(item: ReadColumns<'a, R>, v: &Vec<R::Owned>, cx: &mut Cx) -> Res
    where
        Self: 'a,
    {
        let n = v.len();
        let len = item.len();
        if len != n {
            return Err(Fail::new(Kind::Content, format!("row len() = {len}, expected {n}")));
        }
        if n == 0 {
            cx.hit(Probe::row_empty);
        } else {
            cx.hit(Probe::row_nonempty);
        }
        if item.is_empty() != (n == 0) {
            return Err(Fail::new(Kind::Agree, format!("row is_empty() = {} but len() = {len}", item.is_empty())));
        }
        let mut count = 0usize;
        {
            let it = (&item).into_iter();
            let (lo, hi) = it.size_hint();
            if lo > n || hi.map(|h| h < n).unwrap_or(false) {
                return Err(Fail::new(Kind::Agree, format!("row iterator size_hint ({lo},{hi:?}) excludes len {n}")));
            }
            if it.len() != n {
                return Err(Fail::new(Kind::Agree, format!("row iterator ExactSize len {} != {n}", it.len())));
            }
            for (i, x) in it.take(n + 1).enumerate() {
                if i >= n {
                    return Err(Fail::new(Kind::Agree, format!("row iter yields more than len() = {n} cells")));
                }
                cx.depth += 1;
                let r = R::obs(x, &v[i], cx);
                cx.depth -= 1;
                r.map_err(|f| at(f, "iter", i))?;
                count += 1;
            }
        }
        if count != n {
            return Err(Fail::new(Kind::Agree, format!("row iter yields {count} cells, len() = {n}")));
        }
        if cx.full {
            for i in 0..n {
                let got = catch(|| {
                    let it = item.get(i);
                    cx.depth += 1;
                    let r = R::obs(it, &v[i], cx);
                    cx.depth -= 1;
                    r
                });
                match got {
                    Ok(Ok(())) => {}
                    Ok(Err(mut f)) => {
                        if matches!(f.kind, Kind::Content | Kind::Str) {
                            f.kind = Kind::Get;
                        }
                        return Err(at(f, "get", i));
                    }
                    Err(p) => {
                        return Err(Fail::new(Kind::Panic, format!("row get({i}) of len {n}: {}", p.short())));
                    }
                }
            }
            let owned = item.into_owned();
            if !owned.beq(v) {
                return Err(Fail::new(
                    Kind::Agree,
                    format!("row into_owned() = {} differs from its cells {}", owned.render(), v.render()),
                ));
            }
        }
        if cx.oob && cx.depth == 0 {
            for i in OOB_OFFSETS.iter().map(|off| n + off).chain(OOB_HUGE.iter().copied()) {
                let r = catch(|| {
                    let _ = item.get(i);
                });
                if r.is_ok() {
                    return Err(Fail::new(
                        Kind::Oob,
                        format!("get({i}) on a row of len {n} returned instead of panicking"),
                    ));
                }
                cx.hit(Probe::oob_probe_panicked);
                if cx.has_successor {
                    cx.hit(Probe::oob_on_item_with_successor);
                }
            }
        }
        if cx.borrowed && cx.depth == 0 {
            let owned = item.into_owned();
            let b: ReadColumns<'_, R> = IntoOwned::borrow_as(&owned);
            let saved = (cx.borrowed, cx.has_successor);
            cx.borrowed = false;
            cx.has_successor = false;
            let r = Self::obs(b, v, cx);
            cx.borrowed = saved.0;
            cx.has_successor = saved.1;
            cx.hit(Probe::borrowed_repr_checked);
            r.map_err(|mut f| {
                f.borrowed = true;
                f.detail = format!("borrowed repr: {}", f.detail);
                f
            })?;
        }
        Ok(())
    }
}

// ---------------------------------------------------------------------------------------------
// Huffman items: decode is bounded by the model's length (decode can be infinite on a bad tree)
// ---------------------------------------------------------------------------------------------

/// Symbols usable in a Huffman container.
pub trait Sym: Value + Ord + Clone + std::fmt::Debug {}
impl Sym for u8 {}
impl Sym for u16 {}
impl Sym for u32 {}

impl<B: Sym> Obs for HuffmanContainer<B> {
    fn obs<'a>(item: Self::ReadItem<'a>, v: &Vec<B>, cx: &mut Cx) -> Res
    where
        Self: 'a,
    {
        let n = v.len();
        let exact = catch(|| -> Result<bool, Fail> {
            match item.decode() {
                Ok(iter) => {
                    let mut got: Vec<B> = Vec::with_capacity(n.min(1 << 16));
                    for s in iter.take(n + 1) {
                        got.push(s.clone());
                    }
                    if !got.beq(v) {
                        return Err(Fail::new(
                            Kind::Content,
                            format!("decoded {}{} expected {}", got.render(), if got.len() > n { " (and more)" } else { "" }, v.render()),
                        ));
                    }
                    Ok(true)
                }
                Err(slice) => {
                    if !slice.to_vec().beq(v) {
                        return Err(Fail::new(Kind::Content, format!("raw {} expected {}", slice.to_vec().render(), v.render())));
                    }
                    Ok(false)
                }
            }
        });
        let encoded = match exact {
            Ok(Ok(e)) => e,
            Ok(Err(f)) => return Err(f),
            Err(p) => return Err(Fail::new(Kind::Panic, format!("decode of an issued item: {}", p.short()))),
        };
        if encoded {
            cx.hit(Probe::huff_encoded_item);
        } else {
            cx.hit(Probe::huff_raw_item);
        }
        if cx.full {
            // only now is it safe to run the unbounded conversions
            let r = catch(|| {
                let owned = item.into_owned();
                let dbg = format!("{:?}", item);
                (owned, dbg)
            });
            match r {
                Ok((owned, dbg)) => {
                    if !owned.beq(v) {
                        return Err(Fail::new(Kind::Agree, format!("into_owned() = {} but decode() = {}", owned.render(), v.render())));
                    }
                    let want = format!("{:?}", v);
                    if dbg != want {
                        return Err(Fail::new(Kind::Agree, format!("Debug {dbg} differs from {want}")));
                    }
                }
                Err(p) => return Err(Fail::new(Kind::Panic, format!("into_owned/Debug of an issued item: {}", p.short()))),
            }
        }
        Ok(())
    }
}

// ---------------------------------------------------------------------------------------------
// Canonical, comparable rendering of index types
// ---------------------------------------------------------------------------------------------

pub trait IdxRepr {
    fn repr(&self) -> String;
}
macro_rules! idx_via_value { ($($t:ty),* $(,)?) => { $(impl IdxRepr for $t { fn repr(&self) -> String { Value::to_json(self).to_string() } })* } }
idx_via_value!(
    (),
    bool,
    char,
    u8,
    u16,
    u32,
    u64,
    u128,
    usize,
    i8,
    i16,
    i32,
    i64,
    i128,
    isize,
    f32,
    f64,
    std::num::Wrapping<i8>,
    std::time::Duration
);
impl<T: IdxRepr> IdxRepr for Option<T> {
    fn repr(&self) -> String {
        match self {
            None => "None".into(),
            Some(x) => format!("Some({})", x.repr()),
        }
    }
}
impl<T: IdxRepr, E: IdxRepr> IdxRepr for Result<T, E> {
    fn repr(&self) -> String {
        match self {
            Ok(x) => format!("Ok({})", x.repr()),
            Err(x) => format!("Err({})", x.repr()),
        }
    }
}
macro_rules! idx_tuple {
    ($($n:ident $i:tt),+) => {
        impl<$($n: IdxRepr),+> IdxRepr for ($($n,)+) {
            fn repr(&self) -> String {
                let parts: Vec<String> = vec![$(self.$i.repr()),+];
                format!("({})", parts.join(","))
            }
        }
    };
}
idx_tuple!(A 0);
idx_tuple!(A 0, B 1);
idx_tuple!(A 0, B 1, C 2);
idx_tuple!(A 0, B 1, C 2, D 3);
idx_tuple!(A 0, B 1, C 2, D 3, E 4, F 5, G 6, H 7);
