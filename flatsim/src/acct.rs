//! C18: a per-composition *lower bound* on the bytes `heap_size` must report as used, computed
//! from the reference model only: bytes of strings and owned elements (after collapsing), one
//! index entry per slice element / row cell / stack entry where the index container is a plain
//! vector. Offset lists that may legitimately compress to nothing count as zero.

use crate::value::Value;
use flatcontainer::impls::codec::{Codec, CodecRegion};
use flatcontainer::impls::deduplicate::{CollapseSequence, ConsecutiveIndexPairs};
use flatcontainer::impls::huffman_container::HuffmanContainer;
use flatcontainer::impls::index::{IndexContainer, IndexList, IndexOptimized};
use flatcontainer::impls::tuple::*;
use flatcontainer::{ColumnsRegion, MirrorRegion, OptionRegion, OwnedRegion, Region, ResultRegion, SliceRegion, StringRegion};

/// Guaranteed cost of `n` entries of `elem` bytes in an index container.
pub trait IcCost {
    fn cost(n: usize, elem: usize) -> usize;
}
impl<T> IcCost for Vec<T> {
    fn cost(n: usize, elem: usize) -> usize {
        n * elem
    }
}
impl<S, L> IcCost for IndexOptimized<S, L> {
    fn cost(_n: usize, _elem: usize) -> usize {
        0
    }
}
impl<S, L> IcCost for IndexList<S, L> {
    fn cost(_n: usize, _elem: usize) -> usize {
        0
    }
}

pub trait Acct: Region {
    fn lb(vals: &[&Self::Owned]) -> usize;
}

impl<T> Acct for MirrorRegion<T>
where
    for<'x> T: flatcontainer::Index + flatcontainer::IntoOwned<'x, Owned = T>,
{
    fn lb(_vals: &[&T]) -> usize {
        0
    }
}

impl Acct for StringRegion<OwnedRegion<u8>> {
    fn lb(vals: &[&String]) -> usize {
        vals.iter().map(|s| s.len()).sum()
    }
}
impl<C: Codec + 'static> Acct for StringRegion<CodecRegion<C>> {
    fn lb(_vals: &[&String]) -> usize {
        0
    }
}
impl<C: Codec + 'static, R> Acct for CodecRegion<C, R>
where
    for<'a> R: Region<ReadItem<'a> = &'a [u8]> + 'a,
{
    fn lb(_vals: &[&Vec<u8>]) -> usize {
        0
    }
}
impl<B: Ord + Clone + 'static> Acct for HuffmanContainer<B> {
    fn lb(_vals: &[&Vec<B>]) -> usize {
        0
    }
}

impl<T: Clone> Acct for OwnedRegion<T> {
    fn lb(vals: &[&Vec<T>]) -> usize {
        vals.iter().map(|v| v.len()).sum::<usize>() * std::mem::size_of::<T>()
    }
}

impl<T: Clone> Acct for Vec<T> {
    fn lb(vals: &[&T]) -> usize {
        vals.len() * std::mem::size_of::<T>()
    }
}

impl<R: Acct> Acct for OptionRegion<R> {
    fn lb(vals: &[&Option<R::Owned>]) -> usize {
        let inner: Vec<&R::Owned> = vals.iter().filter_map(|v| v.as_ref()).collect();
        R::lb(&inner)
    }
}

impl<T: Acct, E: Acct> Acct for ResultRegion<T, E> {
    fn lb(vals: &[&Result<T::Owned, E::Owned>]) -> usize {
        let oks: Vec<&T::Owned> = vals.iter().filter_map(|v| v.as_ref().ok()).collect();
        let errs: Vec<&E::Owned> = vals.iter().filter_map(|v| v.as_ref().err()).collect();
        T::lb(&oks) + E::lb(&errs)
    }
}

macro_rules! acct_tuple {
    ($reg:ident; $($n:ident $i:tt),+) => {
        impl<$($n: Acct),+> Acct for $reg<$($n),+>
        where $(<$n as Region>::Index: flatcontainer::Index),+
        {
            fn lb(vals: &[&($($n::Owned,)+)]) -> usize {
                0 $(+ { let f: Vec<&$n::Owned> = vals.iter().map(|v| &v.$i).collect(); $n::lb(&f) })+
            }
        }
    };
}
acct_tuple!(TupleARegion; A 0);
acct_tuple!(TupleABRegion; A 0, B 1);
acct_tuple!(TupleABCRegion; A 0, B 1, C 2);
acct_tuple!(TupleABCDRegion; A 0, B 1, C 2, D 3);
acct_tuple!(TupleABCDEFGHRegion; A 0, B 1, C 2, D 3, E 4, F 5, G 6, H 7);

impl<R: Acct, O: IndexContainer<R::Index> + IcCost> Acct for SliceRegion<R, O> {
    fn lb(vals: &[&Vec<R::Owned>]) -> usize {
        let flat: Vec<&R::Owned> = vals.iter().flat_map(|v| v.iter()).collect();
        R::lb(&flat) + O::cost(flat.len(), std::mem::size_of::<R::Index>())
    }
}

impl<R: Acct, O: IndexContainer<usize> + IcCost> Acct for ColumnsRegion<R, O> {
    fn lb(vals: &[&Vec<R::Owned>]) -> usize {
        let ncols = vals.iter().map(|v| v.len()).max().unwrap_or(0);
        let mut total = 0;
        let mut cells = 0;
        for c in 0..ncols {
            let col: Vec<&R::Owned> = vals.iter().filter_map(|v| v.get(c)).collect();
            cells += col.len();
            total += R::lb(&col);
        }
        // one stored index per cell (the column vector itself is bookkeeping that survives clear)
        // plus one row offset per row where the offset container is a plain vector
        total + cells * std::mem::size_of::<R::Index>() + O::cost(vals.len(), std::mem::size_of::<usize>())
    }
}

impl<R: Acct> Acct for CollapseSequence<R>
where
    R::Owned: Value,
{
    fn lb(vals: &[&R::Owned]) -> usize {
        let mut kept: Vec<&R::Owned> = Vec::with_capacity(vals.len());
        for v in vals {
            match kept.last() {
                Some(p) if v.peq(p) => {}
                _ => kept.push(v),
            }
        }
        R::lb(&kept)
    }
}

impl<R: Acct + Region<Index = (usize, usize)>, O: IndexContainer<usize> + IcCost> Acct for ConsecutiveIndexPairs<R, O> {
    fn lb(vals: &[&R::Owned]) -> usize {
        // one offset per item (the seed entry is bookkeeping and is not counted)
        R::lb(vals) + O::cost(vals.len(), std::mem::size_of::<usize>())
    }
}
