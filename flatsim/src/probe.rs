//! C04, second sentence: "the crate's single unchecked UTF-8 conversion is reachable only through
//! write paths that accept string types".
//!
//! A simulator cannot quantify over program text, but it can try the door handles: for a list of
//! byte-carrying input types this engine asks the compiler (autoref specialisation) whether a
//! string region accepts that type; if it does, the engine *uses* that write path to push bytes
//! that are not UTF-8 and reads them back. The violation reported is the dynamic one — an invalid
//! `&str` handed out — with a replay. The list of candidate types is finite and stated in the
//! evidence; a write path through a type not on the list is not found.

use crate::guard::catch;
use crate::rng::Rng;
use crate::scen::{SOut, Scenario};
use flatcontainer::impls::codec::{CodecRegion, DictionaryCodec};
use flatcontainer::impls::deduplicate::{CollapseSequence, ConsecutiveIndexPairs};
use flatcontainer::{Push, PushIter, Region, StringRegion};
use serde_json::{json, Value as J};
use std::borrow::Cow;
use std::ffi::{CStr, CString, OsStr, OsString};
use std::marker::PhantomData;
use std::os::unix::ffi::{OsStrExt, OsStringExt};
use std::path::{Path, PathBuf};

pub struct Wrap<R, T>(PhantomData<(R, T)>);

pub trait ViaPush<R: Region, T> {
    fn try_push(&self, r: &mut R, t: T) -> Option<R::Index>;
}
impl<R: Region + Push<T>, T> ViaPush<R, T> for Wrap<R, T> {
    fn try_push(&self, r: &mut R, t: T) -> Option<R::Index> {
        Some(r.push(t))
    }
}
pub trait NoPush<R: Region, T> {
    fn try_push(&self, _r: &mut R, _t: T) -> Option<R::Index> {
        None
    }
}
impl<R: Region, T> NoPush<R, T> for &Wrap<R, T> {}

static BAD: [u8; 2] = [0x66, 0xE9]; // "f" followed by a lone Latin-1 byte: not UTF-8
static BAD_NUL: [u8; 3] = [0x66, 0xE9, 0x00];
static BAD_REF: &[u8] = &BAD;
static BAD_ARR_REF: &[u8; 2] = &BAD;

type Outcome = Option<Result<(), String>>;

/// Try one (region, input type) pair. None = no such write path (expected).
macro_rules! attempt {
    ($R:ty, $T:ty, $val:expr) => {{
        let mut r: $R = Default::default();
        let w: Wrap<$R, $T> = Wrap(PhantomData);
        let v: $T = $val;
        match (&w).try_push(&mut r, v) {
            None => None,
            Some(idx) => {
                let s: &str = r.index(idx);
                let bytes = s.as_bytes();
                Some(match std::str::from_utf8(bytes) {
                    Ok(_) => Ok(()),
                    Err(_) => Err(format!("{} accepts {} and hands out a &str with bytes {:02x?}", stringify!($R), stringify!($T), bytes)),
                })
            }
        }
    }};
}

macro_rules! for_region {
    ($R:ty, $out:ident) => {{
        $out.push((concat!(stringify!($R), " <- &[u8]"), attempt!($R, &'static [u8], BAD_REF)));
        $out.push((concat!(stringify!($R), " <- &&[u8]"), attempt!($R, &'static &'static [u8], &BAD_REF)));
        $out.push((concat!(stringify!($R), " <- Vec<u8>"), attempt!($R, Vec<u8>, BAD.to_vec())));
        $out.push((concat!(stringify!($R), " <- &Vec<u8>"), { let v = BAD.to_vec(); let l: &'static Vec<u8> = Box::leak(Box::new(v)); attempt!($R, &'static Vec<u8>, l) }));
        $out.push((concat!(stringify!($R), " <- [u8; 2]"), attempt!($R, [u8; 2], BAD)));
        $out.push((concat!(stringify!($R), " <- &[u8; 2]"), attempt!($R, &'static [u8; 2], BAD_ARR_REF)));
        $out.push((concat!(stringify!($R), " <- &&[u8; 2]"), attempt!($R, &'static &'static [u8; 2], &BAD_ARR_REF)));
        $out.push((concat!(stringify!($R), " <- Box<[u8]>"), attempt!($R, Box<[u8]>, BAD.to_vec().into_boxed_slice())));
        $out.push((concat!(stringify!($R), " <- Cow<[u8]>"), attempt!($R, Cow<'static, [u8]>, Cow::Borrowed(BAD_REF))));
        $out.push((concat!(stringify!($R), " <- u8"), attempt!($R, u8, 0xE9u8)));
        $out.push((concat!(stringify!($R), " <- &u8"), attempt!($R, &'static u8, &BAD[1])));
        $out.push((concat!(stringify!($R), " <- &OsStr"), attempt!($R, &'static OsStr, OsStr::from_bytes(BAD_REF))));
        $out.push((concat!(stringify!($R), " <- OsString"), attempt!($R, OsString, OsString::from_vec(BAD.to_vec()))));
        $out.push((concat!(stringify!($R), " <- &OsString"), { let l: &'static OsString = Box::leak(Box::new(OsString::from_vec(BAD.to_vec()))); attempt!($R, &'static OsString, l) }));
        $out.push((concat!(stringify!($R), " <- &Path"), attempt!($R, &'static Path, Path::new(OsStr::from_bytes(BAD_REF)))));
        $out.push((concat!(stringify!($R), " <- PathBuf"), attempt!($R, PathBuf, PathBuf::from(OsString::from_vec(BAD.to_vec())))));
        $out.push((concat!(stringify!($R), " <- &CStr"), attempt!($R, &'static CStr, CStr::from_bytes_with_nul(&BAD_NUL).unwrap())));
        $out.push((concat!(stringify!($R), " <- CString"), attempt!($R, CString, CString::new(BAD.to_vec()).unwrap())));
        $out.push((concat!(stringify!($R), " <- PushIter<vec::IntoIter<u8>>"), attempt!($R, PushIter<std::vec::IntoIter<u8>>, PushIter(BAD.to_vec().into_iter()))));
        $out.push((concat!(stringify!($R), " <- PushIter<Copied<slice::Iter<u8>>>"), attempt!($R, PushIter<std::iter::Copied<std::slice::Iter<'static, u8>>>, PushIter(BAD_REF.iter().copied()))));
        $out.push((concat!(stringify!($R), " <- PushIter<[u8; 2]>"), attempt!($R, PushIter<[u8; 2]>, PushIter(BAD))));
        $out.push((concat!(stringify!($R), " <- &[u16] (UTF-16 units)"), { static U: [u16; 1] = [0xD800]; attempt!($R, &'static [u16], &U[..]) }));
    }};
}

pub fn all_attempts() -> Vec<(&'static str, Outcome)> {
    let mut out: Vec<(&'static str, Outcome)> = Vec::new();
    for_region!(StringRegion, out);
    for_region!(ConsecutiveIndexPairs<StringRegion>, out);
    for_region!(CollapseSequence<StringRegion>, out);
    for_region!(StringRegion<CodecRegion<DictionaryCodec>>, out);
    out
}

#[derive(Clone)]
pub struct ProbeScen;

impl Scenario for ProbeScen {
    type Op = usize;
    fn name(&self) -> String {
        "string write paths".into()
    }
    fn engine(&self) -> &'static str {
        "probe"
    }
    fn stratified(&self, _thorough: bool) -> u64 {
        all_attempts().len() as u64
    }
    fn gen(&self, rng: &mut Rng, _thorough: bool, index: u64) -> Vec<usize> {
        let n = all_attempts().len() as u64;
        vec![if index < n { index as usize } else { rng.below(n as usize) }]
    }
    fn exec(&self, ops: &[usize]) -> SOut {
        let mut out = SOut::default();
        out.steps = ops.len();
        for (step, i) in ops.iter().enumerate() {
            let r = catch(all_attempts);
            match r {
                Ok(all) => {
                    let (name, res) = &all[*i % all.len()];
                    out.digest = crate::rng::fnv(name.as_bytes());
                    out.nontrivial = true;
                    match res {
                        None => out.hit("no_such_write_path"),
                        Some(Ok(())) => out.hit("write_path_exists_but_validated"),
                        Some(Err(d)) => {
                            out.fail = Some(("C04/probe/non-string-write-path".into(), step, d.clone()));
                            return out;
                        }
                    }
                }
                Err(p) => {
                    // a byte-accepting path that panics on invalid input is a checked path
                    out.hit("attempt_panicked");
                    let _ = p;
                }
            }
        }
        out
    }
    fn op_json(&self, op: &usize) -> J {
        let all = all_attempts();
        json!({"attempt": op, "what": all[*op % all.len()].0})
    }
    fn op_from_json(&self, j: &J) -> Option<usize> {
        j.get("attempt")?.as_u64().map(|x| x as usize)
    }
}
