//! The single source of every choice in a simulated run.
//!
//! One `u64` seed -> one xoshiro256** stream. Nothing else in the simulator is random:
//! no clock, no address, no hash-map order. Logging and checking never draw from it.

#[inline]
pub fn splitmix64(state: &mut u64) -> u64 {
    *state = state.wrapping_add(0x9E37_79B9_7F4A_7C15);
    let mut z = *state;
    z = (z ^ (z >> 30)).wrapping_mul(0xBF58_476D_1CE4_E5B9);
    z = (z ^ (z >> 27)).wrapping_mul(0x94D0_49BB_1331_11EB);
    z ^ (z >> 31)
}

/// FNV-1a over bytes: used to derive per-(property, composition) stream offsets and digests.
pub fn fnv(bytes: &[u8]) -> u64 {
    let mut h: u64 = 0xcbf2_9ce4_8422_2325;
    for b in bytes {
        h ^= *b as u64;
        h = h.wrapping_mul(0x0000_0100_0000_01B3);
    }
    h
}

#[derive(Clone, Debug)]
pub struct Rng {
    s: [u64; 4],
    /// number of draws so far (diagnostics only)
    pub draws: u64,
}

impl Rng {
    pub fn new(seed: u64) -> Self {
        let mut sm = seed;
        let s = [
            splitmix64(&mut sm),
            splitmix64(&mut sm),
            splitmix64(&mut sm),
            splitmix64(&mut sm),
        ];
        Rng { s, draws: 0 }
    }

    #[inline]
    pub fn next(&mut self) -> u64 {
        self.draws += 1;
        let result = self.s[1].wrapping_mul(5).rotate_left(7).wrapping_mul(9);
        let t = self.s[1] << 17;
        self.s[2] ^= self.s[0];
        self.s[3] ^= self.s[1];
        self.s[1] ^= self.s[2];
        self.s[0] ^= self.s[3];
        self.s[2] ^= t;
        self.s[3] = self.s[3].rotate_left(45);
        result
    }

    /// Uniform in `0..n` (n > 0). Slight modulo bias is irrelevant here.
    #[inline]
    pub fn below(&mut self, n: usize) -> usize {
        debug_assert!(n > 0);
        (self.next() % (n as u64)) as usize
    }

    /// Uniform in `lo..=hi`.
    #[inline]
    pub fn range(&mut self, lo: usize, hi: usize) -> usize {
        lo + self.below(hi - lo + 1)
    }

    /// True with probability num/den.
    #[inline]
    pub fn chance(&mut self, num: u32, den: u32) -> bool {
        (self.next() % den as u64) < num as u64
    }

    #[inline]
    pub fn coin(&mut self) -> bool {
        self.next() & 1 == 1
    }

    pub fn pick<'a, T>(&mut self, xs: &'a [T]) -> &'a T {
        &xs[self.below(xs.len())]
    }

    /// Pick an index according to integer weights (sum > 0).
    pub fn weighted(&mut self, ws: &[u32]) -> usize {
        let total: u64 = ws.iter().map(|w| *w as u64).sum();
        debug_assert!(total > 0);
        let mut x = self.next() % total;
        for (i, w) in ws.iter().enumerate() {
            if x < *w as u64 {
                return i;
            }
            x -= *w as u64;
        }
        ws.len() - 1
    }

    /// Geometric-ish small length: mostly small, sometimes up to `max`.
    pub fn small_len(&mut self, max: usize) -> usize {
        if max == 0 {
            return 0;
        }
        match self.below(8) {
            0 => 0,
            1 | 2 => self.below(2.min(max) + 1),
            3 | 4 | 5 => self.below(4.min(max) + 1),
            6 => self.below(8.min(max) + 1),
            _ => self.below(max + 1),
        }
    }
}

/// Incremental digest of an event log (never draws, never reads a clock).
#[derive(Clone, Copy, Debug)]
pub struct Digest(pub u64);

impl Default for Digest {
    fn default() -> Self {
        Digest(0xcbf2_9ce4_8422_2325)
    }
}

impl Digest {
    #[inline]
    pub fn bytes(&mut self, b: &[u8]) {
        for x in b {
            self.0 ^= *x as u64;
            self.0 = self.0.wrapping_mul(0x0000_0100_0000_01B3);
        }
    }
    #[inline]
    pub fn u64(&mut self, v: u64) {
        self.bytes(&v.to_le_bytes());
    }
    #[inline]
    pub fn str(&mut self, s: &str) {
        self.bytes(s.as_bytes());
        self.bytes(&[0xff]);
    }
}
