//! `Sut`: the uniform interface the simulator core drives. Two generic adaptors implement it on
//! top of a `Spec`: a bare region, and a `FlatStack` over that region with a chosen index container.

use crate::guard::catch;
use crate::observe::{Cx, Fail, IdxRepr, Kind, Probe, Res};
use crate::spec::Spec;
use crate::value::Value;
use flatcontainer::impls::index::IndexContainer;
use flatcontainer::{FlatStack, Region};
use std::marker::PhantomData;

#[derive(Clone, Copy, Debug)]
pub struct Caps {
    pub nforms: usize,
    pub nrforms: usize,
    pub clone: bool,
    pub serde: bool,
    pub heap: bool,
    pub resreg: bool,
    pub copy: bool,
    pub debug: bool,
    pub dense: bool,
    pub collapse_top: bool,
    pub presize: bool,
    pub plain: bool,
    pub is_stack: bool,
    /// the stack's own index container stores nothing on the heap for dense indices (C19)
    pub stack_ic: u8, // 0 = n/a, 1 = Vec, 2 = IndexOptimized, 3 = IndexList
    /// composition stores vectors of zero-sized elements by length only (huge lengths are safe)
    pub zst_huge: bool,
}

pub trait Sut: Sized + 'static {
    type Val: Value;
    type H: Clone;
    fn name() -> String;
    fn caps() -> Caps;
    fn new() -> Self;
    fn with_capacity(_n: usize) -> Option<Self> {
        None
    }
    fn push(&mut self, v: &Self::Val, form: usize) -> Self::H;
    fn hrepr(h: &Self::H) -> String;
    fn check(&self, h: &Self::H, v: &Self::Val, cx: &mut Cx) -> Res;
    fn laws(&self, h: &Self::H, v: &Self::Val, scratch: &mut Self::Val, cx: &mut Cx) -> Res;
    fn clear(&mut self);
    fn try_clone(&self) -> Option<Self>;
    fn try_clone_from(&mut self, src: &Self) -> bool;
    fn merge(srcs: &[&Self]) -> Self;
    fn reserve_regions(&mut self, srcs: &[&Self]) -> bool;
    fn reserve_items(&mut self, vs: &[Self::Val], form: usize);
    fn heap(&self) -> Option<Vec<(usize, usize)>>;
    fn ser(&self) -> Option<Result<String, String>>;
    fn de(s: &str) -> Option<Result<Self, String>>;
    fn copy_item(&mut self, src: &Self, h: &Self::H, via_owned: bool) -> Option<Self::H>;
    // ---- FlatStack extras (C03) ----
    fn stack_reserve(&mut self, _n: usize) -> bool {
        false
    }
    fn extend(&mut self, _vs: &[Self::Val], _lo: usize, _hi: Option<usize>) -> Option<Vec<Self::H>> {
        None
    }
    fn from_iter(_vs: &[Self::Val], _lo: usize, _hi: Option<usize>) -> Option<(Self, Vec<Self::H>)> {
        None
    }
    /// `extend` without any harness-side allocation (for allocator-call counting)
    fn extend_raw(&mut self, _vs: &[Self::Val], _lo: usize, _hi: Option<usize>) -> bool {
        false
    }
    /// Whole-container checks against the model sequence (stacks: len, is_empty, iteration order,
    /// size hints, cloned iterators, Debug, get(len) fail-stop). Regions: nothing.
    fn whole(&self, _model: &[(Self::H, Self::Val)], _cx: &mut Cx) -> Res {
        Ok(())
    }
    /// Bytes of the heap_size report that belong to the stack's own index container.
    fn index_share(&self) -> Option<(usize, usize)> {
        None
    }
    /// C18: model-derived lower bound on the sum of used bytes
    fn lower_bound(_vals: &[&Self::Val]) -> usize {
        0
    }
}

// ---------------------------------------------------------------------------------------------
// Bare region
// ---------------------------------------------------------------------------------------------

pub struct RegionSut<S: Spec> {
    pub r: S::R,
}

impl<S: Spec> Sut for RegionSut<S> {
    type Val = S::Val;
    type H = S::Idx;
    fn name() -> String {
        S::NAME.to_string()
    }
    fn caps() -> Caps {
        Caps {
            nforms: S::NFORMS,
            nrforms: S::NRFORMS,
            clone: S::CLONE,
            serde: S::SERDE,
            heap: S::HEAP,
            resreg: S::RESREG,
            copy: S::COPY,
            debug: S::DEBUG,
            dense: S::DENSE,
            collapse_top: S::COLLAPSE_TOP,
            presize: S::PRESIZE,
            plain: S::PLAIN,
            is_stack: false,
            stack_ic: 0,
            zst_huge: S::NAME.contains("OwnedRegion<()>") && !S::NAME.contains("Collapse"),
        }
    }
    fn new() -> Self {
        RegionSut { r: Default::default() }
    }
    fn push(&mut self, v: &S::Val, form: usize) -> S::Idx {
        S::push(&mut self.r, v, form)
    }
    fn hrepr(h: &S::Idx) -> String {
        h.repr()
    }
    fn check(&self, h: &S::Idx, v: &S::Val, cx: &mut Cx) -> Res {
        S::check(&self.r, *h, v, cx)
    }
    fn laws(&self, h: &S::Idx, v: &S::Val, scratch: &mut S::Val, cx: &mut Cx) -> Res {
        S::laws(&self.r, *h, v, scratch, cx)
    }
    fn clear(&mut self) {
        self.r.clear();
    }
    fn try_clone(&self) -> Option<Self> {
        S::clone_r(&self.r).map(|r| RegionSut { r })
    }
    fn try_clone_from(&mut self, src: &Self) -> bool {
        S::clone_from_r(&mut self.r, &src.r)
    }
    fn merge(srcs: &[&Self]) -> Self {
        RegionSut { r: <S::R as Region>::merge_regions(srcs.iter().map(|s| &s.r)) }
    }
    fn reserve_regions(&mut self, srcs: &[&Self]) -> bool {
        let v: Vec<&S::R> = srcs.iter().map(|s| &s.r).collect();
        S::reserve_regions(&mut self.r, &v)
    }
    fn reserve_items(&mut self, vs: &[S::Val], form: usize) {
        S::reserve_items(&mut self.r, vs, form)
    }
    fn heap(&self) -> Option<Vec<(usize, usize)>> {
        S::heap(&self.r)
    }
    fn ser(&self) -> Option<Result<String, String>> {
        S::ser(&self.r)
    }
    fn de(s: &str) -> Option<Result<Self, String>> {
        S::de(s).map(|r| r.map(|r| RegionSut { r }))
    }
    fn copy_item(&mut self, src: &Self, h: &S::Idx, via_owned: bool) -> Option<S::Idx> {
        S::copy_item(&mut self.r, &src.r, *h, via_owned)
    }
    fn lower_bound(vals: &[&S::Val]) -> usize {
        S::lower_bound(vals)
    }
}

// ---------------------------------------------------------------------------------------------
// FlatStack over a region with index container IC
// ---------------------------------------------------------------------------------------------

pub trait StackIc<I>: IndexContainer<I> + Clone + serde::Serialize + for<'d> serde::Deserialize<'d> + 'static {
    const KIND: u8;
    const LABEL: &'static str;
}
impl<I: Copy + serde::Serialize + for<'d> serde::Deserialize<'d> + 'static> StackIc<I> for Vec<I> {
    const KIND: u8 = 1;
    const LABEL: &'static str = "Vec";
}
impl StackIc<usize> for flatcontainer::impls::index::IndexOptimized {
    const KIND: u8 = 2;
    const LABEL: &'static str = "IndexOptimized";
}
impl StackIc<usize> for flatcontainer::impls::index::IndexList<Vec<u32>, Vec<u64>> {
    const KIND: u8 = 3;
    const LABEL: &'static str = "IndexList";
}

pub struct StackSut<S: Spec, IC: StackIc<S::Idx>> {
    pub s: FlatStack<S::R, IC>,
    _m: PhantomData<S>,
}

impl<S: Spec, IC: StackIc<S::Idx>> StackSut<S, IC> {
    fn wrap(s: FlatStack<S::R, IC>) -> Self {
        StackSut { s, _m: PhantomData }
    }
}

impl<S: Spec, IC: StackIc<S::Idx>> Sut for StackSut<S, IC> {
    type Val = S::Val;
    type H = usize;
    fn name() -> String {
        format!("FlatStack<{},{}>", S::NAME, IC::LABEL)
    }
    fn caps() -> Caps {
        Caps {
            nforms: S::NFORMS,
            nrforms: S::NRFORMS,
            clone: S::CLONE,
            serde: S::SERDE,
            heap: S::HEAP,
            resreg: S::RESREG,
            copy: S::COPY,
            debug: S::DEBUG,
            dense: false,
            collapse_top: false,
            presize: S::PRESIZE && IC::KIND == 1,
            plain: S::PLAIN,
            is_stack: true,
            stack_ic: IC::KIND,
            zst_huge: false,
        }
    }
    fn new() -> Self {
        Self::wrap(FlatStack::default())
    }
    fn with_capacity(n: usize) -> Option<Self> {
        Some(Self::wrap(FlatStack::with_capacity(n)))
    }
    fn push(&mut self, v: &S::Val, form: usize) -> usize {
        S::stack_push(&mut self.s, v, form);
        self.s.len().wrapping_sub(1)
    }
    fn hrepr(h: &usize) -> String {
        h.to_string()
    }
    fn check(&self, h: &usize, v: &S::Val, cx: &mut Cx) -> Res {
        S::check_item(self.s.get(*h), v, cx)
    }
    fn laws(&self, _h: &usize, _v: &S::Val, _scratch: &mut S::Val, _cx: &mut Cx) -> Res {
        Ok(())
    }
    fn clear(&mut self) {
        self.s.clear();
    }
    fn try_clone(&self) -> Option<Self> {
        S::stack_clone(&self.s).map(Self::wrap)
    }
    fn try_clone_from(&mut self, src: &Self) -> bool {
        S::stack_clone_from(&mut self.s, &src.s)
    }
    fn merge(srcs: &[&Self]) -> Self {
        Self::wrap(FlatStack::merge_capacity(srcs.iter().map(|s| &s.s)))
    }
    fn reserve_regions(&mut self, srcs: &[&Self]) -> bool {
        // FlatStack::reserve_regions takes bare regions, which a stack does not expose: scratch
        // regions are rebuilt from the source stacks' items (push form 0 onto a default region).
        let v: Vec<&FlatStack<S::R, IC>> = srcs.iter().map(|s| &s.s).collect();
        S::stack_reserve_regions(&mut self.s, &v)
    }
    fn reserve_items(&mut self, vs: &[S::Val], form: usize) {
        S::stack_reserve_items(&mut self.s, vs, form)
    }
    fn heap(&self) -> Option<Vec<(usize, usize)>> {
        S::stack_heap(&self.s)
    }
    fn ser(&self) -> Option<Result<String, String>> {
        S::stack_ser(&self.s)
    }
    fn de(s: &str) -> Option<Result<Self, String>> {
        S::stack_de::<IC>(s).map(|r| r.map(Self::wrap))
    }
    fn copy_item(&mut self, src: &Self, h: &usize, via_owned: bool) -> Option<usize> {
        if S::stack_copy_item(&mut self.s, &src.s, *h, via_owned) {
            Some(self.s.len().wrapping_sub(1))
        } else {
            None
        }
    }
    fn lower_bound(vals: &[&S::Val]) -> usize {
        // the region's share plus one index per entry when the index container is a plain vector
        S::lower_bound(vals) + if IC::KIND == 1 { vals.len() * std::mem::size_of::<S::Idx>() } else { 0 }
    }
    fn stack_reserve(&mut self, n: usize) -> bool {
        self.s.reserve(n);
        true
    }
    fn extend(&mut self, vs: &[S::Val], lo: usize, hi: Option<usize>) -> Option<Vec<usize>> {
        let before = self.s.len();
        S::stack_extend(&mut self.s, vs, lo, hi);
        Some((before..before + vs.len()).collect())
    }
    fn extend_raw(&mut self, vs: &[S::Val], lo: usize, hi: Option<usize>) -> bool {
        S::stack_extend(&mut self.s, vs, lo, hi);
        true
    }
    fn from_iter(vs: &[S::Val], lo: usize, hi: Option<usize>) -> Option<(Self, Vec<usize>)> {
        let s: FlatStack<S::R, IC> = S::stack_from_iter(vs, lo, hi);
        Some((Self::wrap(s), (0..vs.len()).collect()))
    }

    fn whole(&self, model: &[(usize, S::Val)], cx: &mut Cx) -> Res {
        let n = model.len();
        let s = &self.s;
        if s.len() != n {
            return Err(Fail::new(Kind::Content, format!("FlatStack::len() = {} but {} values were copied", s.len(), n)));
        }
        if s.is_empty() != (n == 0) {
            return Err(Fail::new(Kind::Agree, format!("FlatStack::is_empty() = {} with len {}", s.is_empty(), n)));
        }
        // iteration in order, bounded
        let it = s.iter();
        let (lo, hi) = it.size_hint();
        if lo > n || hi.map(|h| h < n).unwrap_or(false) {
            return Err(Fail::new(Kind::Agree, format!("iter().size_hint() = ({lo},{hi:?}) excludes the true count {n}")));
        }
        let mut it2 = it.clone();
        let mut count = 0usize;
        let saved_full = cx.full;
        let saved_oob = cx.oob;
        cx.full = false;
        // per-item out-of-bounds probes belong to the handle re-reads, not to the sequence pass
        cx.oob = false;
        for (i, item) in it.take(n + 1).enumerate() {
            if i >= n {
                cx.full = saved_full;
                cx.oob = saved_oob;
                return Err(Fail::new(Kind::Agree, format!("iter() yields more than len() = {n} items")));
            }
            if let Err(mut f) = S::check_item(item, &model[i].1, cx) {
                cx.full = saved_full;
                cx.oob = saved_oob;
                f.detail = format!("iter position {i}: {}", f.detail);
                return Err(f);
            }
            count += 1;
        }
        cx.full = saved_full;
        cx.oob = saved_oob;
        if count != n {
            return Err(Fail::new(Kind::Agree, format!("iter() yields {count} items, len() = {n}")));
        }
        // into_iter on &stack
        let mut c2 = 0usize;
        for _ in (&self.s).into_iter().take(n + 1) {
            c2 += 1;
        }
        if c2 != n {
            return Err(Fail::new(Kind::Agree, format!("(&stack).into_iter() yields {c2} items, len() = {n}")));
        }
        // cloned iterator advanced independently: skip the first k on the clone, the size hint
        // of the clone must still contain the true remaining count
        let k = n / 2;
        for _ in 0..k {
            let _ = it2.next();
        }
        let (lo2, hi2) = it2.size_hint();
        let rem = n - k;
        if lo2 > rem || hi2.map(|h| h < rem).unwrap_or(false) {
            return Err(Fail::new(Kind::Agree, format!("cloned iterator after {k} steps: size_hint ({lo2},{hi2:?}) excludes remaining {rem}")));
        }
        if rem > 0 {
            let first = it2.next();
            match first {
                None => return Err(Fail::new(Kind::Agree, format!("cloned iterator ended after {k} of {n} items"))),
                Some(item) => {
                    cx.full = false;
                    cx.oob = false;
                    let r = S::check_item(item, &model[k].1, cx);
                    cx.full = saved_full;
                    cx.oob = saved_oob;
                    r.map_err(|mut f| {
                        f.detail = format!("cloned iterator position {k}: {}", f.detail);
                        f
                    })?;
                }
            }
            cx.hit(Probe::iter_clone_checked);
        }
        // positional adaptors of the iterator (`nth`, `skip`, `step_by` may have their own fast paths)
        if n > 0 {
            cx.full = false;
            cx.oob = false;
            for k in [0usize, n / 3, n / 2, n - 1] {
                // nth(k) yields item k, and the iterator continues with item k + 1
                let mut it = self.s.iter();
                let got = it.nth(k);
                let r = match got {
                    None => Err(Fail::new(Kind::Agree, format!("iter().nth({k}) of {n} items returned None"))),
                    Some(item) => S::check_item(item, &model[k].1, cx).map_err(|mut f| {
                        f.detail = format!("iter().nth({k}): {}", f.detail);
                        f
                    }),
                };
                let r = r.and_then(|_| match (it.next(), k + 1 < n) {
                    (None, false) => Ok(()),
                    (Some(item), true) => S::check_item(item, &model[k + 1].1, cx).map_err(|mut f| {
                        f.detail = format!("item after iter().nth({k}): {}", f.detail);
                        f
                    }),
                    (None, true) => Err(Fail::new(Kind::Agree, format!("iterator ended after nth({k}) of {n} items"))),
                    (Some(_), false) => Err(Fail::new(Kind::Agree, format!("iterator continues after nth({k}) of {n} items"))),
                });
                if let Err(f) = r {
                    cx.full = saved_full;
                    cx.oob = saved_oob;
                    return Err(f);
                }
            }
            // skip(k) then the rest, and step_by(2), must follow the model order
            let k = n / 2;
            let mut seen = 0usize;
            for (j, item) in self.s.iter().skip(k).take(n + 1).enumerate() {
                if k + j >= n {
                    cx.full = saved_full;
                    cx.oob = saved_oob;
                    return Err(Fail::new(Kind::Agree, format!("iter().skip({k}) yields more than {} items", n - k)));
                }
                if let Err(mut f) = S::check_item(item, &model[k + j].1, cx) {
                    cx.full = saved_full;
                    cx.oob = saved_oob;
                    f.detail = format!("iter().skip({k}) position {j}: {}", f.detail);
                    return Err(f);
                }
                seen += 1;
            }
            if seen != n - k {
                cx.full = saved_full;
                cx.oob = saved_oob;
                return Err(Fail::new(Kind::Agree, format!("iter().skip({k}) yields {seen} items, expected {}", n - k)));
            }
            for (j, item) in self.s.iter().step_by(2).take(n + 1).enumerate() {
                if 2 * j >= n {
                    cx.full = saved_full;
                    cx.oob = saved_oob;
                    return Err(Fail::new(Kind::Agree, "iter().step_by(2) yields too many items".to_string()));
                }
                if let Err(mut f) = S::check_item(item, &model[2 * j].1, cx) {
                    cx.full = saved_full;
                    cx.oob = saved_oob;
                    f.detail = format!("iter().step_by(2) position {j}: {}", f.detail);
                    return Err(f);
                }
            }
            cx.full = saved_full;
            cx.oob = saved_oob;
        }
        // Debug output = bracketed list of the items' own Debug
        if n <= 24 {
            if let Some(dbg) = S::stack_debug(&self.s) {
                let parts: Vec<String> = (0..n).map(|i| S::item_debug(self.s.get(i)).unwrap_or_default()).collect();
                let want = format!("[{}]", parts.join(", "));
                if dbg != want {
                    return Err(Fail::new(Kind::Agree, format!("Debug output {dbg} differs from the list of item Debugs {want}")));
                }
                cx.hit(Probe::debug_checked);
            }
        }
        // get(i), i >= len must fail-stop
        if cx.oob {
            for i in [n, n + 1, n + 5, usize::MAX, usize::MAX - 1] {
                let r = catch(|| {
                    let _ = self.s.get(i);
                });
                if r.is_ok() {
                    return Err(Fail::new(Kind::Oob, format!("FlatStack::get({i}) with len {n} returned instead of panicking")));
                }
                cx.hit(Probe::oob_probe_panicked);
            }
        }
        Ok(())
    }

    fn index_share(&self) -> Option<(usize, usize)> {
        // FlatStack::heap_size reports the region first, then the index container: the region's
        // own report tells how many leading pairs are the region's.
        let all = S::stack_heap(&self.s)?;
        // Region part is not separately accessible; compute via a fresh region's pair *count*
        // being structural is unsound for columns (pair count varies), so sum the tail reported
        // by the container alone is not available either. We therefore use the container kinds'
        // known pair counts: Vec = 1 pair, IndexList = 2 pairs, IndexOptimized = 2 pairs.
        let k = match IC::KIND {
            1 => 1,
            _ => 2,
        };
        if all.len() < k {
            return None;
        }
        let tail = &all[all.len() - k..];
        Some((tail.iter().map(|p| p.0).sum(), tail.iter().map(|p| p.1).sum()))
    }
}
