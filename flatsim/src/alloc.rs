//! The allocator seam.
//!
//! A `#[global_allocator]` that (a) tags every block with the *owner* that was current when it
//! was allocated (0 = harness, n = simulated instance n), (b) keeps per-owner, per-thread
//! counters of allocator calls and live bytes, and (c) offers two legal-but-unusual behaviours
//! chosen per run by the simulator's PRNG: `move_on_realloc` (realloc always returns a fresh
//! block and poisons the old one) and `poison_on_free`.
//!
//! No change to /repo is needed: the library allocates through `std::alloc` like everyone.
//! Everything here is per-thread and const-initialised so it is safe to touch from inside the
//! allocator, and a run (which lives on exactly one worker thread) sees only its own events.

use std::alloc::{GlobalAlloc, Layout, System};
use std::cell::Cell;

pub const MAX_OWNERS: usize = 1024;

pub struct Counter {
    pub allocs: Cell<u64>,
    pub reallocs: Cell<u64>,
    pub frees: Cell<u64>,
    pub live: Cell<i64>,
    pub moved: Cell<u64>,
}

impl Counter {
    #[allow(clippy::declare_interior_mutable_const)]
    const ZERO: Counter = Counter {
        allocs: Cell::new(0),
        reallocs: Cell::new(0),
        frees: Cell::new(0),
        live: Cell::new(0),
        moved: Cell::new(0),
    };
}

thread_local! {
    static OWNER: Cell<u32> = const { Cell::new(0) };
    static MOVE_ON_REALLOC: Cell<bool> = const { Cell::new(false) };
    static POISON_ON_FREE: Cell<bool> = const { Cell::new(false) };
    static COUNTERS: [Counter; MAX_OWNERS] = const { [Counter::ZERO; MAX_OWNERS] };
}

#[repr(C)]
struct Header {
    owner: u32,
    magic: u32,
    size: usize,
}
const MAGIC: u32 = 0x51AB_C0DE;

pub struct Tagged;

#[inline]
fn off_for(align: usize) -> usize {
    if align > 16 {
        align
    } else {
        16
    }
}

#[inline]
fn slot(owner: u32) -> usize {
    let o = owner as usize;
    if o >= MAX_OWNERS {
        MAX_OWNERS - 1
    } else {
        o
    }
}

#[inline]
fn cur_owner() -> u32 {
    OWNER.try_with(|o| o.get()).unwrap_or(0)
}

#[inline]
fn with_counter(owner: u32, f: impl FnOnce(&Counter)) {
    let _ = COUNTERS.try_with(|c| f(&c[slot(owner)]));
}

unsafe impl GlobalAlloc for Tagged {
    unsafe fn alloc(&self, layout: Layout) -> *mut u8 {
        let off = off_for(layout.align());
        let total = match Layout::from_size_align(layout.size() + off, off) {
            Ok(l) => l,
            Err(_) => return std::ptr::null_mut(),
        };
        let base = System.alloc(total);
        if base.is_null() {
            return base;
        }
        let owner = cur_owner();
        let user = base.add(off);
        (user.sub(16) as *mut Header).write(Header {
            owner,
            magic: MAGIC,
            size: layout.size(),
        });
        with_counter(owner, |c| {
            c.allocs.set(c.allocs.get() + 1);
            c.live.set(c.live.get() + layout.size() as i64);
        });
        user
    }

    unsafe fn alloc_zeroed(&self, layout: Layout) -> *mut u8 {
        let p = self.alloc(layout);
        if !p.is_null() {
            std::ptr::write_bytes(p, 0, layout.size());
        }
        p
    }

    unsafe fn dealloc(&self, ptr: *mut u8, layout: Layout) {
        let off = off_for(layout.align());
        let hdr = (ptr.sub(16) as *mut Header).read();
        debug_assert_eq!(hdr.magic, MAGIC);
        with_counter(hdr.owner, |c| {
            c.frees.set(c.frees.get() + 1);
            c.live.set(c.live.get() - hdr.size as i64);
        });
        if POISON_ON_FREE.try_with(|p| p.get()).unwrap_or(false) {
            std::ptr::write_bytes(ptr, 0xDD, layout.size());
        }
        let total = Layout::from_size_align_unchecked(layout.size() + off, off);
        System.dealloc(ptr.sub(off), total);
    }

    unsafe fn realloc(&self, ptr: *mut u8, layout: Layout, new_size: usize) -> *mut u8 {
        let owner = cur_owner();
        with_counter(owner, |c| c.reallocs.set(c.reallocs.get() + 1));
        let force_move = MOVE_ON_REALLOC.try_with(|p| p.get()).unwrap_or(false);
        if force_move {
            let new_layout = Layout::from_size_align_unchecked(new_size, layout.align());
            // `alloc` counts an alloc call; undo that so a realloc is counted once, as realloc.
            let np = self.alloc(new_layout);
            if np.is_null() {
                return np;
            }
            with_counter(owner, |c| {
                c.allocs.set(c.allocs.get() - 1);
                c.moved.set(c.moved.get() + 1);
            });
            std::ptr::copy_nonoverlapping(ptr, np, layout.size().min(new_size));
            std::ptr::write_bytes(ptr, 0xDD, layout.size());
            // `dealloc` counts a free; undo.
            let hdr_owner = (ptr.sub(16) as *mut Header).read().owner;
            self.dealloc(ptr, layout);
            with_counter(hdr_owner, |c| c.frees.set(c.frees.get() - 1));
            np
        } else {
            let off = off_for(layout.align());
            let hdr = (ptr.sub(16) as *mut Header).read();
            let old_total = Layout::from_size_align_unchecked(layout.size() + off, off);
            let nb = System.realloc(ptr.sub(off), old_total, new_size + off);
            if nb.is_null() {
                return nb;
            }
            let user = nb.add(off);
            (user.sub(16) as *mut Header).write(Header {
                owner,
                magic: MAGIC,
                size: new_size,
            });
            with_counter(hdr.owner, |c| c.live.set(c.live.get() - hdr.size as i64));
            with_counter(owner, |c| c.live.set(c.live.get() + new_size as i64));
            user
        }
    }
}

/// A snapshot of one owner's counters.
#[derive(Clone, Copy, Debug, Default, PartialEq, Eq)]
pub struct Snap {
    pub allocs: u64,
    pub reallocs: u64,
    pub frees: u64,
    pub live: i64,
    pub moved: u64,
}

impl Snap {
    /// allocator *acquisition* calls (alloc + realloc); frees are not acquisitions.
    pub fn calls(&self) -> u64 {
        self.allocs + self.reallocs
    }
}

pub fn snap(owner: u32) -> Snap {
    COUNTERS.with(|c| {
        let c = &c[slot(owner)];
        Snap {
            allocs: c.allocs.get(),
            reallocs: c.reallocs.get(),
            frees: c.frees.get(),
            live: c.live.get(),
            moved: c.moved.get(),
        }
    })
}

/// Reset all counters of this thread (start of a run).
pub fn reset() {
    COUNTERS.with(|cs| {
        for c in cs.iter() {
            c.allocs.set(0);
            c.reallocs.set(0);
            c.frees.set(0);
            c.live.set(0);
            c.moved.set(0);
        }
    });
    OWNER.with(|o| o.set(0));
}

pub fn set_knobs(move_on_realloc: bool, poison_on_free: bool) {
    MOVE_ON_REALLOC.with(|m| m.set(move_on_realloc));
    POISON_ON_FREE.with(|m| m.set(poison_on_free));
}

/// Run `f` with allocations attributed to `owner`.
#[inline]
pub fn with_owner<T>(owner: u32, f: impl FnOnce() -> T) -> T {
    struct Restore(u32);
    impl Drop for Restore {
        fn drop(&mut self) {
            OWNER.with(|o| o.set(self.0));
        }
    }
    let prev = OWNER.with(|o| o.replace(owner));
    let _r = Restore(prev);
    f()
}
