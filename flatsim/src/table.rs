//! Run-time table over the typed catalogue: one entry per system under test (bare region or
//! FlatStack over a region with a chosen index container).

use crate::catalog::*;
use crate::runner::{self, BatchCfg, BatchOut};
use crate::sim::ExecOut;
use crate::sut::{Caps, RegionSut, StackSut, Sut};
use flatcontainer::impls::index::{IndexList, IndexOptimized};
use serde_json::Value as J;
use std::sync::OnceLock;

pub struct Entry {
    pub name: String,
    pub caps: Caps,
    pub batch: fn(&BatchCfg) -> BatchOut,
    pub replay: fn(&J) -> Result<ExecOut, String>,
    pub allocs_batch: fn(&BatchCfg) -> BatchOut,
    pub allocs_replay: fn(&J) -> Result<crate::scen::SOut, String>,
}

fn allocs_batch<T: Sut>(bc: &BatchCfg) -> BatchOut {
    crate::scen::run_scenario(&crate::allocs::AllocScen::<T>(std::marker::PhantomData), bc)
}
fn allocs_replay<T: Sut>(j: &J) -> Result<crate::scen::SOut, String> {
    crate::scen::replay_scenario(&crate::allocs::AllocScen::<T>(std::marker::PhantomData), j)
}

fn entry<T: Sut>() -> Entry {
    Entry { name: T::name(), caps: T::caps(), batch: runner::run_batch::<T>, replay: runner::replay::<T>, allocs_batch: allocs_batch::<T>, allocs_replay: allocs_replay::<T> }
}

type IL = IndexList<Vec<u32>, Vec<u64>>;
type P2 = (usize, usize);

pub fn entries() -> &'static Vec<Entry> {
    static E: OnceLock<Vec<Entry>> = OnceLock::new();
    E.get_or_init(|| {
        vec![
            entry::<RegionSut<MirrorUnit>>(),
            entry::<RegionSut<MirrorBool>>(),
            entry::<RegionSut<MirrorChar>>(),
            entry::<RegionSut<MirrorU8>>(),
            entry::<RegionSut<MirrorU64>>(),
            entry::<RegionSut<MirrorU128>>(),
            entry::<RegionSut<MirrorUsize>>(),
            entry::<RegionSut<MirrorI64>>(),
            entry::<RegionSut<MirrorI128>>(),
            entry::<RegionSut<MirrorF32>>(),
            entry::<RegionSut<MirrorF64>>(),
            entry::<RegionSut<MirrorWrapI8>>(),
            entry::<RegionSut<MirrorDuration>>(),
            entry::<RegionSut<Str>>(),
            entry::<RegionSut<OwnedU8>>(),
            entry::<RegionSut<OwnedUnit>>(),
            entry::<RegionSut<OwnedString>>(),
            entry::<RegionSut<VecU32>>(),
            entry::<RegionSut<VecString>>(),
            entry::<RegionSut<OptStr>>(),
            entry::<RegionSut<ResStrU8>>(),
            entry::<RegionSut<ResOwnedOwned>>(),
            entry::<RegionSut<TupA>>(),
            entry::<RegionSut<TupAB>>(),
            entry::<RegionSut<TupABC>>(),
            entry::<RegionSut<SliceU8>>(),
            entry::<RegionSut<SliceStr>>(),
            entry::<RegionSut<SliceSliceStr>>(),
            entry::<RegionSut<SliceUsizeOpt>>(),
            entry::<RegionSut<SliceUsizeList>>(),
            entry::<RegionSut<SlicePairsStrOpt>>(),
            entry::<RegionSut<SliceCollapsePairsStrOpt>>(),
            entry::<RegionSut<SliceTupAB>>(),
            entry::<RegionSut<CollapseStr>>(),
            entry::<RegionSut<CollapseOwnedF64>>(),
            entry::<RegionSut<CollapsePairsStr>>(),
            entry::<RegionSut<PairsOwnedU8>>(),
            entry::<RegionSut<PairsStrVec>>(),
            entry::<RegionSut<PairsStrOpt>>(),
            entry::<RegionSut<PairsUnitOpt>>(),
            entry::<RegionSut<PairsUnitList>>(),
            entry::<RegionSut<PairsSliceStr>>(),
            entry::<RegionSut<ColsU8>>(),
            entry::<RegionSut<ColsOwnedU8>>(),
            entry::<RegionSut<ColsStrVec>>(),
            entry::<RegionSut<ColsPairsStr>>(),
            entry::<RegionSut<ColsCollapsePairsStr>>(),
            entry::<RegionSut<ColsSliceU8>>(),
            entry::<RegionSut<SliceColsU8>>(),
            entry::<RegionSut<TupCollapse>>(),
            entry::<RegionSut<ColsCollapseStr>>(),
            entry::<RegionSut<SliceCollapseStr>>(),
            entry::<RegionSut<OptVecU32>>(),
            entry::<RegionSut<ResVecVec>>(),
            entry::<RegionSut<SliceVecU32>>(),
            entry::<RegionSut<MirrorU16>>(),
            entry::<RegionSut<MirrorU32>>(),
            entry::<RegionSut<MirrorI8>>(),
            entry::<RegionSut<MirrorI32>>(),
            entry::<RegionSut<MirrorIsize>>(),
            entry::<RegionSut<Tup8>>(),
            entry::<RegionSut<SliceHuffU8>>(),
            entry::<RegionSut<PairsHuffU8>>(),
            entry::<RegionSut<OptSliceStr>>(),
            entry::<RegionSut<Bench>>(),
            entry::<RegionSut<OptSliceU128>>(),
            entry::<RegionSut<ColsCodec>>(),
            entry::<RegionSut<ColsI128>>(),
            entry::<RegionSut<HuffU8>>(),
            entry::<RegionSut<HuffU16>>(),
            entry::<RegionSut<Codec>>(),
            entry::<RegionSut<StrCodec>>(),
            entry::<RegionSut<PairsCodec>>(),
            entry::<RegionSut<ColsUnitVec>>(),
            entry::<RegionSut<CollapseCodec>>(),
            entry::<RegionSut<OptOwnedU8>>(),
            entry::<RegionSut<UserCodecReg>>(),
            entry::<RegionSut<StrUserCodec>>(),
            entry::<RegionSut<CollapseUserCodec>>(),
            // FlatStacks
            entry::<StackSut<Str, Vec<P2>>>(),
            entry::<StackSut<OwnedU8, Vec<P2>>>(),
            entry::<StackSut<SliceStr, Vec<P2>>>(),
            entry::<StackSut<MirrorU8, Vec<u8>>>(),
            entry::<StackSut<MirrorUsize, IndexOptimized>>(),
            entry::<StackSut<MirrorUsize, IL>>(),
            entry::<StackSut<OptStr, Vec<Option<P2>>>>(),
            entry::<StackSut<ResStrU8, Vec<Result<P2, u8>>>>(),
            entry::<StackSut<TupAB, Vec<(u64, P2)>>>(),
            entry::<StackSut<CollapseStr, Vec<P2>>>(),
            entry::<StackSut<PairsStrOpt, Vec<usize>>>(),
            entry::<StackSut<PairsStrOpt, IndexOptimized>>(),
            entry::<StackSut<PairsStrOpt, IL>>(),
            entry::<StackSut<CollapsePairsStr, IndexOptimized>>(),
            entry::<StackSut<ColsStrVec, IndexOptimized>>(),
            entry::<StackSut<ColsU8, IL>>(),
            entry::<StackSut<ColsPairsStr, Vec<usize>>>(),
            entry::<StackSut<VecU32, IndexOptimized>>(),
            entry::<StackSut<HuffU8, Vec<P2>>>(),
            entry::<StackSut<SliceU8, Vec<P2>>>(),
            entry::<StackSut<ColsOwnedU8, IndexOptimized>>(),
            entry::<StackSut<PairsOwnedU8, IL>>(),
            entry::<StackSut<TupABC, Vec<(P2, Option<i64>, P2)>>>(),
        ]
    })
}

/// Which systems under test a property's history simulation runs on.
pub fn applies(prop: u8, e: &Entry) -> bool {
    let n = &e.name;
    let c = &e.caps;
    match prop {
        1 | 2 | 8 | 10 => true,
        3 => c.is_stack,
        4 => n.contains("String"),
        9 => c.clone,
        11 => n.contains("Collapse"),
        12 => c.dense,
        13 => n.contains("SliceRegion") || n.contains("ColumnsRegion") || c.is_stack,
        14 => c.copy && !c.is_stack,
        16 => c.serde,
        18 => c.heap,
        17 => c.presize || (c.plain && c.heap),
        20 => c.nforms > 1,
        _ => false,
    }
}
