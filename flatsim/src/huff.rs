//! Engine for C06: the Huffman container as a long-lived state machine.
//!
//! Histories over a small population of containers: train (raw pushes following a frequency
//! profile), merge_regions over 0..k sources (generations), pushes of items inside and outside the
//! merged statistics (refusal fault), clear, clone, region-to-region pushes between raw and coded
//! containers. Oracles: exact bounded decode of every issued item (now and later), refusal iff
//! outside the statistics, bit length = Σ code lengths, code lengths form an optimal prefix code.

use crate::guard::catch;
use crate::observe::{Cx, Obs, Sym};
use crate::rng::{Digest, Rng};
use crate::scen::{SOut, Scenario};
use flatcontainer::impls::deduplicate::CollapseSequence;
use flatcontainer::impls::huffman_container::HuffmanContainer;
use flatcontainer::{Push, Region};
use serde_json::{json, Value as J};
use std::collections::{BTreeMap, BTreeSet, BinaryHeap};
use std::sync::OnceLock;

#[derive(Clone, Debug)]
pub enum HOp {
    /// push one long item holding symbol i `count_i` times, according to a frequency profile
    Train { t: usize, profile: u8, k: u32 },
    Push { t: usize, item: Vec<u32>, form: u8 },
    /// `probe`: push one single-symbol item per symbol afterwards to learn the code lengths
    Merge { srcs: Vec<usize>, probe: bool },
    Clear { t: usize },
    Clone { t: usize },
    /// dst.clone_from(&src): the destination keeps nothing of its own history
    CloneFrom { src: usize, dst: usize },
    Copy { src: usize, h: usize, dst: usize, via_owned: bool },
    /// push a read item of container `src` into the collapsing container (C11 over a Huffman region)
    CzCopy { src: usize, h: usize },
    /// replace the collapsing container by merge_regions of itself (its inner container becomes coded)
    CzMerge,
}

fn profile_counts(profile: u8, k: u32) -> Vec<u64> {
    let k = k.max(1) as usize;
    match profile {
        0 => vec![3],
        1 => vec![1; k],
        2 => (0..k.min(13)).map(|i| 1u64 << (k.min(13) - 1 - i)).collect(),
        3 => {
            // Fibonacci-skewed: forces code depth k-1
            let k = k.min(21);
            let mut v = vec![1u64, 1];
            while v.len() < k {
                let n = v.len();
                v.push(v[n - 1] + v[n - 2]);
            }
            v.truncate(k);
            v
        }
        _ => (0..k).map(|i| 1 + ((i as u64 * 2654435761) % 7)).collect(),
    }
}

pub fn optimal_cost(counts: &BTreeMap<u32, u64>) -> u128 {
    if counts.is_empty() {
        return 0;
    }
    if counts.len() == 1 {
        return *counts.values().next().unwrap() as u128;
    }
    let mut heap: BinaryHeap<std::cmp::Reverse<u128>> = counts.values().map(|c| std::cmp::Reverse(*c as u128)).collect();
    let mut cost = 0u128;
    while heap.len() > 1 {
        let a = heap.pop().unwrap().0;
        let b = heap.pop().unwrap().0;
        cost += a + b;
        heap.push(std::cmp::Reverse(a + b));
    }
    cost
}

fn align_probe(s: usize, e: usize) -> &'static str {
    static NAMES: OnceLock<Vec<&'static str>> = OnceLock::new();
    let names = NAMES.get_or_init(|| (0..64).map(|i| &*Box::leak(format!("align_start{}_end{}", i / 8, i % 8).into_boxed_str())).collect());
    names[(s % 8) * 8 + (e % 8)]
}

#[derive(Clone)]
pub struct HuffScen {
    /// 0 = u8 symbols, 1 = u16 symbols
    pub wide: bool,
    /// property the failures are reported for (6, or 10 for "merged regions start empty and work")
    pub prop: u8,
}

struct Hc<B: Sym> {
    c: HuffmanContainer<B>,
    coded: bool,
    accept: BTreeSet<u32>,
    lens: BTreeMap<u32, usize>,
    stats: BTreeMap<u32, u64>,
    model: Vec<((usize, usize), Vec<B>, Vec<u32>)>,
    generation: u32,
}

trait FromU32: Sized {
    fn from_u32(x: u32) -> Self;
    fn max_sym() -> u32;
}
impl FromU32 for u8 {
    fn from_u32(x: u32) -> u8 {
        x as u8
    }
    fn max_sym() -> u32 {
        255
    }
}
impl FromU32 for u16 {
    fn from_u32(x: u32) -> u16 {
        x as u16
    }
    fn max_sym() -> u32 {
        65535
    }
}

impl HuffScen {
    fn run<B: Sym + FromU32>(&self, ops: &[HOp]) -> SOut
    where
        HuffmanContainer<B>: Obs<Owned = Vec<B>, Index = (usize, usize)> + for<'a> Push<&'a [B]> + Push<Vec<B>> + for<'a> Push<&'a Vec<B>> + Clone,
        for<'a> HuffmanContainer<B>: Push<<HuffmanContainer<B> as Region>::ReadItem<'a>>,
        for<'a> CollapseSequence<HuffmanContainer<B>>: Push<<HuffmanContainer<B> as Region>::ReadItem<'a>>,
        CollapseSequence<HuffmanContainer<B>>: Obs<Owned = Vec<B>, Index = (usize, usize)>,
    {
        let mut out = SOut::default();
        let mut dig = Digest::default();
        let mut cx = Cx::default();
        let mut pop: Vec<Hc<B>> = vec![Hc { c: Default::default(), coded: false, accept: BTreeSet::new(), lens: BTreeMap::new(), stats: BTreeMap::new(), model: Vec::new(), generation: 0 }];
        let prop = self.prop;
        let allowed = move |o: &str| -> bool {
            match prop {
                1 => matches!(o, "just-pushed-item-differs" | "just-pushed-differs" | "push-refused-inside-statistics" | "refused-representable-input" | "merge-panicked"),
                2 => matches!(o, "earlier-item-differs"),
                // C11: a collapsing region over a Huffman container
                11 => o.starts_with("collapse-"),
                // C14: region-to-region pushes of read items must be accepted and read back equal
                14 | 20 => matches!(o, "just-pushed-item-differs" | "push-refused-inside-statistics" | "merge-panicked" | "bits-not-sum-of-code-lengths"),
                // C04 is about the strings handed out: read-back oracles only
                4 => matches!(o, "just-pushed-differs" | "earlier-item-differs"),
                _ => true,
            }
        };
        // a collapsing region over a Huffman container, fed only by read items of other containers
        let mut cz: CollapseSequence<HuffmanContainer<B>> = Default::default();
        let mut cz_coded = false;
        let mut cz_accept: BTreeSet<u32> = BTreeSet::new();
        let mut cz_stats: BTreeSet<u32> = BTreeSet::new();
        let mut cz_last: Option<((usize, usize), Vec<u32>)> = None;
        let mut cz_dead = false;
        let fail = move |o: &str, step: usize, d: String| -> Option<(String, usize, String)> {
            if allowed(o) { Some((format!("C{prop:02}/huff/{o}"), step, d)) } else { Some((format!("foreign/{o}"), step, d)) }
        };
        let conv = |item: &[u32]| -> (Vec<B>, Vec<u32>) {
            let syms: Vec<u32> = item.iter().map(|x| x % (B::max_sym() + 1)).collect();
            (syms.iter().map(|x| B::from_u32(*x)).collect(), syms)
        };

        // Push `syms` into container `ci`; returns Ok(true) if stored, Ok(false) if legitimately refused (retired).
        macro_rules! do_push {
            ($ci:expr, $vals:expr, $syms:expr, $form:expr, $step:expr) => {{
                let ci: usize = $ci;
                let vals: &Vec<B> = $vals;
                let syms: &Vec<u32> = $syms;
                let in_contract = !pop[ci].coded || syms.iter().all(|s| pop[ci].accept.contains(s));
                let r = {
                    let c = &mut pop[ci].c;
                    catch(|| match $form % 3 {
                        0 => c.push(vals.as_slice()),
                        1 => c.push(vals.clone()),
                        _ => c.push(vals),
                    })
                };
                match r {
                    Err(p) => {
                        if in_contract {
                            out.fail = fail("push-refused-inside-statistics", $step, format!("push of {:?} (generation {}, all symbols inside the statistics) panicked: {}", crate::trunc(&format!("{:?}", syms), 200), pop[ci].generation, p.short()));
                            return out;
                        }
                        out.hit("refusal_fired");
                        pop.remove(ci);
                        if pop.is_empty() {
                            pop.push(Hc { c: Default::default(), coded: false, accept: BTreeSet::new(), lens: BTreeMap::new(), stats: BTreeMap::new(), model: Vec::new(), generation: 0 });
                        }
                        false
                    }
                    Ok((s, e)) => {
                        if !in_contract {
                            out.fail = fail("unknown-symbol-accepted", $step, format!("push of {:?} with a symbol outside the statistics returned ({s},{e}) instead of panicking", crate::trunc(&format!("{:?}", syms), 200)));
                            return out;
                        }
                        let h = &mut pop[ci];
                        for x in syms.iter() {
                            *h.stats.entry(*x).or_insert(0) += 1;
                        }
                        if e < s {
                            out.fail = fail("range-inverted", $step, format!("push returned ({s},{e})"));
                            return out;
                        }
                        if h.coded {
                            out.hit("coded_push");
                            out.hit(align_probe(s, e));
                            if syms.is_empty() && s % 8 != 0 {
                                out.hit("empty_item_unaligned");
                            }
                            let bits = e - s;
                            if bits >= 16 + (8 - s % 8) % 8 {
                                out.hit("item_spans_2plus_whole_bytes");
                            } else if bits >= 8 + (8 - s % 8) % 8 {
                                out.hit("item_spans_whole_byte");
                            }
                            if !h.lens.is_empty() {
                                let want: usize = syms.iter().map(|x| h.lens[x]).sum();
                                if bits != want {
                                    out.fail = fail("bits-not-sum-of-code-lengths", $step, format!("item {:?} occupies {bits} bits ({s}..{e}) but its symbols' code lengths sum to {want}", crate::trunc(&format!("{:?}", syms), 200)));
                                    return out;
                                }
                            }
                        } else {
                            out.hit("raw_push");
                            if e - s != syms.len() {
                                out.fail = fail("raw-index-not-offsets", $step, format!("raw container returned ({s},{e}) for {} symbols", syms.len()));
                                return out;
                            }
                        }
                        h.model.push(((s, e), vals.clone(), syms.clone()));
                        dig.u64(s as u64);
                        dig.u64(e as u64);
                        true
                    }
                }
            }};
        }

        // Re-read handles of container ci: the just pushed one plus a rotating sample (all if `all`).
        macro_rules! reread {
            ($ci:expr, $all:expr, $step:expr) => {{
                let ci: usize = $ci;
                let n = pop[ci].model.len();
                for mi in 0..n {
                    if !($all || mi + 1 == n || n <= 12 || mi % 16 == $step % 16) {
                        continue;
                    }
                    cx.full = n <= 12 || mi + 1 == n;
                    let (idx, vals, _) = &pop[ci].model[mi];
                    let r = catch(|| {
                        let item = pop[ci].c.index(*idx);
                        <HuffmanContainer<B> as Obs>::obs(item, vals, &mut cx)
                    });
                    let bad = match r {
                        Ok(Ok(())) => None,
                        Ok(Err(f)) => Some(f.detail),
                        Err(p) => Some(format!("read panicked: {}", p.short())),
                    };
                    if let Some(d) = bad {
                        let what = if mi + 1 == n { "just-pushed-item-differs" } else { "earlier-item-differs" };
                        out.fail = fail(what, $step, format!("container generation {} ({}), item {mi} of {n} at bits {:?}: {d}", pop[ci].generation, if pop[ci].coded { "coded" } else { "raw" }, idx));
                        return out;
                    }
                    out.hit("items_read");
                }
            }};
        }

        for (step, op) in ops.iter().enumerate() {
            out.steps += 1;
            match op {
                HOp::Train { t, profile, k } => {
                    let ci = t % pop.len();
                    let counts = profile_counts(*profile, *k);
                    let mut item: Vec<u32> = Vec::new();
                    for (i, c) in counts.iter().enumerate() {
                        for _ in 0..*c {
                            item.push(i as u32);
                        }
                    }
                    let (vals, syms) = conv(&item);
                    if do_push!(ci, &vals, &syms, 0u8, step) {
                        out.hit("train");
                        // only check the training item cheaply (it can hold tens of thousands of symbols)
                        let n = pop[ci].model.len();
                        if n > 0 && syms.len() <= 4096 {
                            reread!(ci, false, step);
                        }
                    }
                }
                HOp::Push { t, item, form } => {
                    let ci = t % pop.len();
                    let (vals, syms) = conv(item);
                    if do_push!(ci, &vals, &syms, *form, step) {
                        reread!(ci, false, step);
                    }
                }
                HOp::Clear { t } => {
                    let ci = t % pop.len();
                    if let Err(p) = catch(|| pop[ci].c.clear()) {
                        out.fail = fail("clear-panicked", step, p.short());
                        return out;
                    }
                    let h = &mut pop[ci];
                    if h.coded {
                        out.hit("clear_coded");
                    }
                    h.coded = false;
                    h.accept.clear();
                    h.lens.clear();
                    h.stats.clear();
                    h.model.clear();
                    dig.str("clear");
                }
                HOp::Clone { t } => {
                    if pop.len() >= 6 {
                        continue;
                    }
                    let ci = t % pop.len();
                    match catch(|| pop[ci].c.clone()) {
                        Ok(c) => {
                            let s = &pop[ci];
                            let n = Hc { c, coded: s.coded, accept: s.accept.clone(), lens: s.lens.clone(), stats: s.stats.clone(), model: s.model.clone(), generation: s.generation };
                            pop.push(n);
                            let ni = pop.len() - 1;
                            reread!(ni, true, step);
                            out.hit("clone");
                        }
                        Err(p) => {
                            out.fail = fail("clone-panicked", step, p.short());
                            return out;
                        }
                    }
                }
                HOp::CloneFrom { src, dst } => {
                    if pop.len() < 2 {
                        continue;
                    }
                    let si = src % pop.len();
                    let mut di = dst % pop.len();
                    if di == si {
                        di = (si + 1) % pop.len();
                    }
                    let r = {
                        let (a, b) = if si < di {
                            let (x, y) = pop.split_at_mut(di);
                            (&x[si], &mut y[0])
                        } else {
                            let (x, y) = pop.split_at_mut(si);
                            (&y[0], &mut x[di])
                        };
                        catch(|| b.c.clone_from(&a.c))
                    };
                    if let Err(p) = r {
                        out.fail = fail("clone-panicked", step, p.short());
                        return out;
                    }
                    let (coded, accept, lens, stats, model, generation) = {
                        let s = &pop[si];
                        (s.coded, s.accept.clone(), s.lens.clone(), s.stats.clone(), s.model.clone(), s.generation)
                    };
                    let d = &mut pop[di];
                    d.coded = coded;
                    d.accept = accept;
                    d.lens = lens;
                    d.stats = stats;
                    d.model = model;
                    d.generation = generation;
                    out.hit("clone_from");
                    reread!(di, true, step);
                }
                HOp::CzMerge => {
                    if cz_dead {
                        continue;
                    }
                    match catch(|| CollapseSequence::<HuffmanContainer<B>>::merge_regions(std::iter::once(&cz))) {
                        Ok(n) => {
                            cz = n;
                            cz_coded = true;
                            cz_accept = std::mem::take(&mut cz_stats);
                            cz_last = None;
                            out.hit("collapse_container_merged");
                        }
                        Err(p) => {
                            out.fail = fail("collapse-merge-panicked", step, p.short());
                            return out;
                        }
                    }
                }
                HOp::CzCopy { src, h } => {
                    if cz_dead {
                        continue;
                    }
                    let si = src % pop.len();
                    if pop[si].model.is_empty() {
                        continue;
                    }
                    let mi = h % pop[si].model.len();
                    let (idx, vals, syms) = pop[si].model[mi].clone();
                    let in_contract = !cz_coded || syms.iter().all(|x| cz_accept.contains(x));
                    let r = catch(|| cz.push(pop[si].c.index(idx)));
                    match r {
                        Err(p) => {
                            if in_contract {
                                out.fail = fail("collapse-push-panicked", step, format!("pushing read item {:?} into the collapsing region panicked: {}", syms, p.short()));
                                return out;
                            }
                            cz_dead = true;
                        }
                        Ok(ci) => {
                            if !in_contract {
                                cz_dead = true;
                                continue;
                            }
                            let equal_to_last = cz_last.as_ref().map(|l| l.1 == syms).unwrap_or(false);
                            if equal_to_last {
                                out.hit("collapse_equal_read_item");
                                if pop[si].coded && cz_coded {
                                    out.hit("collapse_equal_encoded_vs_encoded");
                                }
                                if cz_last.as_ref().unwrap().0 != ci {
                                    out.fail = fail("collapse-equal-not-collapsed", step, format!("read item {:?} (from a {} container) equals the preceding item but got a new index {:?} (previous {:?})", syms, if pop[si].coded { "coded" } else { "raw" }, ci, cz_last.as_ref().unwrap().0));
                                    return out;
                                }
                            } else {
                                for x in &syms {
                                    cz_stats.insert(*x);
                                }
                                if !syms.is_empty() && cz_last.as_ref().map(|l| l.0 == ci).unwrap_or(false) {
                                    out.fail = fail("collapse-unequal-collapsed", step, format!("read item {:?} differs from the preceding item {:?} but got its index", syms, cz_last.as_ref().unwrap().1));
                                    return out;
                                }
                            }
                            // it must read back
                            let rd = catch(|| <CollapseSequence<HuffmanContainer<B>> as Obs>::obs(cz.index(ci), &vals, &mut cx));
                            if !matches!(rd, Ok(Ok(()))) {
                                out.fail = fail("collapse-read-differs", step, format!("item {:?} pushed into the collapsing region does not read back", syms));
                                return out;
                            }
                            cz_last = Some((ci, syms));
                        }
                    }
                }
                HOp::Copy { src, h, dst, via_owned } => {
                    if pop.len() < 2 {
                        continue;
                    }
                    let si = src % pop.len();
                    let mut di = dst % pop.len();
                    if di == si {
                        di = (si + 1) % pop.len();
                    }
                    if pop[si].model.is_empty() {
                        continue;
                    }
                    let mi = h % pop[si].model.len();
                    let (idx, vals, syms) = pop[si].model[mi].clone();
                    let in_contract = !pop[di].coded || syms.iter().all(|s| pop[di].accept.contains(s));
                    let r = {
                        let (a, b) = if si < di {
                            let (x, y) = pop.split_at_mut(di);
                            (&x[si], &mut y[0])
                        } else {
                            let (x, y) = pop.split_at_mut(si);
                            (&y[0], &mut x[di])
                        };
                        catch(|| {
                            if *via_owned {
                                let owned = flatcontainer::IntoOwned::into_owned(a.c.index(idx));
                                let item: <HuffmanContainer<B> as Region>::ReadItem<'_> = flatcontainer::IntoOwned::borrow_as(&owned);
                                b.c.push(item)
                            } else {
                                b.c.push(a.c.index(idx))
                            }
                        })
                    };
                    match r {
                        Err(p) => {
                            if in_contract {
                                out.fail = fail("push-refused-inside-statistics", step, format!("region-to-region push of {:?} panicked: {}", crate::trunc(&format!("{:?}", syms), 200), p.short()));
                                return out;
                            }
                            out.hit("refusal_fired");
                            pop.remove(di);
                        }
                        Ok((s, e)) => {
                            if !in_contract {
                                out.fail = fail("unknown-symbol-accepted", step, format!("region-to-region push of {:?} outside the statistics returned ({s},{e})", syms));
                                return out;
                            }
                            let hd = &mut pop[di];
                            for x in &syms {
                                *hd.stats.entry(*x).or_insert(0) += 1;
                            }
                            if hd.coded && !hd.lens.is_empty() {
                                let want: usize = syms.iter().map(|x| hd.lens[x]).sum();
                                if e - s != want {
                                    out.fail = fail("bits-not-sum-of-code-lengths", step, format!("copied item {:?} occupies {} bits, code lengths sum to {want}", syms, e - s));
                                    return out;
                                }
                            }
                            hd.model.push(((s, e), vals, syms));
                            out.hit(if pop[si].coded == pop[di].coded { "copy_same_mode" } else { "copy_across_modes" });
                            reread!(di, false, step);
                        }
                    }
                }
                HOp::Merge { srcs, probe } => {
                    if pop.len() >= 6 {
                        pop.remove(0);
                    }
                    let idxs: Vec<usize> = srcs.iter().map(|s| s % pop.len()).collect();
                    let mut merged: BTreeMap<u32, u64> = BTreeMap::new();
                    for i in &idxs {
                        for (k, v) in &pop[*i].stats {
                            *merged.entry(*k).or_insert(0) += v;
                        }
                    }
                    let gen = idxs.iter().map(|i| pop[*i].generation).max().unwrap_or(0) + 1;
                    let r = catch(|| HuffmanContainer::<B>::merge_regions(idxs.iter().map(|i| &pop[*i].c)));
                    let c = match r {
                        Ok(c) => c,
                        Err(p) => {
                            out.fail = fail("merge-panicked", step, format!("merge_regions over {} sources with {} distinct symbols panicked: {}", idxs.len(), merged.len(), p.short()));
                            return out;
                        }
                    };
                    out.hit("merge");
                    match merged.len() {
                        0 => out.hit("alphabet_empty"),
                        1 => out.hit("alphabet_single"),
                        2..=256 => out.hit("alphabet_2_256"),
                        _ => out.hit("alphabet_over_256"),
                    }
                    if gen >= 2 {
                        out.hit("generation_2plus");
                    }
                    if gen >= 3 {
                        out.hit("generation_3plus");
                    }
                    pop.push(Hc { c, coded: true, accept: merged.keys().copied().collect(), lens: BTreeMap::new(), stats: BTreeMap::new(), model: Vec::new(), generation: gen });
                    let ni = pop.len() - 1;
                    // learn the code lengths: one single-symbol item per symbol
                    let mut lens: BTreeMap<u32, usize> = BTreeMap::new();
                    if !*probe {
                        out.hit("merge_without_probe_pushes");
                        dig.u64(merged.len() as u64);
                        continue;
                    }
                    for sym in merged.keys() {
                        let syms = vec![*sym];
                        let vals = vec![B::from_u32(*sym)];
                        if !do_push!(ni, &vals, &syms, 0u8, step) {
                            unreachable!("in-contract push cannot be refused without failing");
                        }
                        {
                            let ((s, e), _, _) = pop[ni].model.last().unwrap();
                            lens.insert(*sym, e - s);
                        }
                        reread!(ni, false, step);
                    }
                    // every symbol at least one bit; Kraft; optimality
                    if let Some((sym, _)) = lens.iter().find(|(_, l)| **l == 0) {
                        out.fail = fail("zero-length-code", step, format!("symbol {sym} of a {}-symbol alphabet has a zero-bit code", merged.len()));
                        return out;
                    }
                    let maxl = lens.values().copied().max().unwrap_or(0);
                    if maxl > 8 {
                        out.hit("code_longer_than_8");
                    }
                    if maxl >= 16 {
                        out.hit("code_16plus");
                    }
                    if maxl < 100 {
                        let kraft: u128 = lens.values().map(|l| 1u128 << (100 - l)).sum();
                        if kraft > 1u128 << 100 {
                            out.fail = fail("not-prefix-free", step, format!("code lengths {:?} violate the Kraft inequality", lens.values().take(16).collect::<Vec<_>>()));
                            return out;
                        }
                    }
                    let cost: u128 = merged.iter().map(|(s, c)| (*c as u128) * (lens[s] as u128)).sum();
                    let best = optimal_cost(&merged);
                    if cost != best {
                        out.fail = fail("code-not-optimal", step, format!("Σ count·length = {cost} but an optimal prefix code (≥1 bit per symbol) costs {best}; counts {:?} lengths {:?}", merged.iter().take(12).collect::<Vec<_>>(), lens.iter().take(12).collect::<Vec<_>>()));
                        return out;
                    }
                    out.hit("optimality_checked");
                    pop[ni].lens = lens;
                    reread!(ni, true, step);
                    dig.u64(merged.len() as u64);
                }
            }
        }
        for ci in 0..pop.len() {
            reread!(ci, true, ops.len());
        }
        out.digest = dig.0;
        out.nontrivial = out.probes.get("coded_push").copied().unwrap_or(0) >= 2;
        out
    }
}

impl Scenario for HuffScen {
    type Op = HOp;
    fn name(&self) -> String {
        if self.wide { "HuffmanContainer<u16>".into() } else { "HuffmanContainer<u8>".into() }
    }
    fn engine(&self) -> &'static str {
        "huff"
    }
    fn gen(&self, rng: &mut Rng, thorough: bool, _index: u64) -> Vec<HOp> {
        let mut ops = Vec::new();
        let maxk: u32 = if self.wide { 600 } else { 256 };
        // alphabet bound for random items (slightly larger than the trained alphabet: refusals)
        let profile = rng.weighted(&[2, 5, 3, 3, 4]) as u8;
        let k: u32 = match rng.below(10) {
            0 => 1,
            1 | 2 => 2 + rng.below(7) as u32,
            3 | 4 => 2 + rng.below(30) as u32,
            5 => *rng.pick(&[255u32, 256, 257, 300, 512]),
            6 => maxk,
            _ => 2 + rng.below(12) as u32,
        }
        .min(maxk);
        let eff_k = profile_counts(profile, k).len() as u32;
        let outside = *rng.pick(&[0u32, 0, 0, 1, 2]);
        let n = 4 + rng.below(if thorough { 120 } else { 40 });
        let item_max = *rng.pick(&[3usize, 8, 20, 40]);
        let mut trained = false;
        let mixed = rng.chance(1, 3);
        // structured opening: a container fed *only* by read items of another (coded or raw)
        // container becomes the sole source of the next generation
        if rng.chance(1, if matches!(self.prop, 14 | 20) { 3 } else { 10 }) {
            let kk = 2 + rng.below(6) as u32;
            ops.push(HOp::Train { t: 0, profile: 1, k: kk });
            let coded_src = rng.coin();
            if coded_src {
                ops.push(HOp::Merge { srcs: vec![0], probe: true }); // 1: coded, holds one item per symbol
            } else {
                ops.push(HOp::Clone { t: 0 }); // 1: raw copy
            }
            if rng.coin() {
                ops.push(HOp::Merge { srcs: vec![0], probe: false }); // 2: coded receiver, never pushed into directly
            } else {
                ops.push(HOp::Merge { srcs: vec![], probe: true }); // 2: receiver with an empty table
                ops.push(HOp::Clear { t: 2 }); // ... turned raw
            }
            for j in 0..(2 + rng.below(8)) {
                ops.push(HOp::Copy { src: 1, h: j * 7 + rng.below(7), dst: 2, via_owned: rng.chance(1, 4) });
            }
            ops.push(HOp::Merge { srcs: vec![2], probe: rng.coin() }); // 3: built from the receiver's statistics alone
            for _ in 0..4 {
                let len = 1 + rng.below(4);
                ops.push(HOp::Push { t: 3, item: (0..len).map(|_| rng.below(kk as usize) as u32).collect(), form: 0 });
            }
            for j in 0..3 {
                ops.push(HOp::Copy { src: 2, h: j, dst: 3, via_owned: false });
            }
            trained = true;
        }
        for i in 0..n {
            let wcopy = if matches!(self.prop, 14 | 11) { 40 } else { 6 };
            let wclone = if self.prop == 9 { 20 } else { 3 };
            let c = if i == 0 { 0 } else if !trained { rng.below(3) } else { rng.weighted(&[1, 60, if matches!(self.prop, 14 | 9) { 16 } else { 8 }, 3, wclone, wcopy]) };
            let t = rng.below(8);
            match c {
                0 => {
                    if mixed && i > 0 {
                        // differently shaped code tables side by side (deep and shallow, small and
                        // large alphabets): clone_from / merges / copies between unlike generations
                        let p2 = rng.weighted(&[2, 5, 3, 3, 4]) as u8;
                        let k2 = (*rng.pick(&[1u32, 2, 3, 5, 9, 17, 24, 40, 200, 256, 300])).min(maxk);
                        ops.push(HOp::Train { t, profile: p2, k: k2 });
                    } else {
                        ops.push(HOp::Train { t, profile, k });
                    }
                    trained = true;
                    if rng.chance(3, 4) {
                        ops.push(HOp::Merge { srcs: vec![rng.below(8)], probe: true });
                    }
                }
                1 => {
                    let len = rng.small_len(item_max);
                    let item = (0..len).map(|_| rng.below((eff_k + outside) as usize) as u32).collect();
                    ops.push(HOp::Push { t, item, form: rng.below(3) as u8 });
                }
                2 => {
                    let ns = rng.weighted(&[1, 5, 2, 1, 1]);
                    ops.push(HOp::Merge { srcs: (0..ns).map(|_| rng.below(8)).collect(), probe: rng.chance(7, 8) });
                }
                3 => ops.push(HOp::Clear { t }),
                4 => ops.push(if rng.coin() { HOp::Clone { t } } else { HOp::CloneFrom { src: t, dst: rng.below(8) } }),
                _ => {
                    if self.prop == 11 || rng.chance(1, 10) {
                        match rng.below(8) {
                            0 => ops.push(HOp::CzMerge),
                            _ => {
                                // often the same logical item twice in a row, taken from different containers
                                let h = rng.below(1 << 16);
                                ops.push(HOp::CzCopy { src: t, h });
                                if rng.coin() {
                                    ops.push(HOp::CzCopy { src: rng.below(8), h });
                                }
                            }
                        }
                    } else {
                        ops.push(HOp::Copy { src: t, h: rng.below(1 << 16), dst: rng.below(8), via_owned: rng.coin() })
                    }
                }
            }
        }
        ops
    }
    fn exec(&self, ops: &[HOp]) -> SOut {
        let mut out = {
        if self.wide {
            self.run::<u16>(ops)
        } else {
            self.run::<u8>(ops)
        }
    };
        if let Some(f) = &out.fail {
            if f.0.starts_with("foreign/") {
                out.foreign = Some(f.0.clone());
                out.fail = None;
            }
        }
        out
    }
    fn op_json(&self, op: &HOp) -> J {
        match op {
            HOp::Train { t, profile, k } => json!({"op":"Train","t":t,"profile":profile,"k":k}),
            HOp::Push { t, item, form } => json!({"op":"Push","t":t,"item":item,"form":form}),
            HOp::Merge { srcs, probe } => json!({"op":"Merge","srcs":srcs,"probe":probe}),
            HOp::Clear { t } => json!({"op":"Clear","t":t}),
            HOp::Clone { t } => json!({"op":"Clone","t":t}),
            HOp::CloneFrom { src, dst } => json!({"op":"CloneFrom","src":src,"dst":dst}),
            HOp::Copy { src, h, dst, via_owned } => json!({"op":"Copy","src":src,"h":h,"dst":dst,"via_owned":via_owned}),
            HOp::CzCopy { src, h } => json!({"op":"CzCopy","src":src,"h":h}),
            HOp::CzMerge => json!({"op":"CzMerge"}),
        }
    }
    fn op_from_json(&self, j: &J) -> Option<HOp> {
        let u = |k: &str| j.get(k).and_then(J::as_u64).map(|x| x as usize);
        Some(match j.get("op")?.as_str()? {
            "Train" => HOp::Train { t: u("t")?, profile: u("profile")? as u8, k: u("k")? as u32 },
            "Push" => HOp::Push { t: u("t")?, item: j.get("item")?.as_array()?.iter().map(|x| x.as_u64().map(|y| y as u32)).collect::<Option<Vec<_>>>()?, form: u("form")? as u8 },
            "Merge" => HOp::Merge { srcs: j.get("srcs")?.as_array()?.iter().map(|x| x.as_u64().map(|y| y as usize)).collect::<Option<Vec<_>>>()?, probe: j.get("probe").and_then(J::as_bool).unwrap_or(true) },
            "Clear" => HOp::Clear { t: u("t")? },
            "Clone" => HOp::Clone { t: u("t")? },
            "CloneFrom" => HOp::CloneFrom { src: u("src")?, dst: u("dst")? },
            "CzCopy" => HOp::CzCopy { src: u("src")?, h: u("h")? },
            "CzMerge" => HOp::CzMerge,
            "Copy" => HOp::Copy { src: u("src")?, h: u("h")?, dst: u("dst")?, via_owned: j.get("via_owned")?.as_bool()? },
            _ => return None,
        })
    }
    fn shrink(&self, op: &HOp) -> Vec<HOp> {
        match op {
            HOp::Train { t, profile, k } if *k > 1 => vec![HOp::Train { t: *t, profile: *profile, k: k / 2 }, HOp::Train { t: *t, profile: *profile, k: k - 1 }, HOp::Train { t: *t, profile: 1, k: *k }],
            HOp::Push { t, item, form } => {
                let mut v = Vec::new();
                if !item.is_empty() {
                    v.push(HOp::Push { t: *t, item: item[..item.len() / 2].to_vec(), form: *form });
                    v.push(HOp::Push { t: *t, item: item[1..].to_vec(), form: *form });
                    v.push(HOp::Push { t: *t, item: item[..item.len() - 1].to_vec(), form: *form });
                    if item.iter().any(|x| *x != 0) {
                        v.push(HOp::Push { t: *t, item: item.iter().map(|_| 0).collect(), form: *form });
                    }
                }
                if *form != 0 {
                    v.push(HOp::Push { t: *t, item: item.clone(), form: 0 });
                }
                v
            }
            HOp::Merge { srcs, probe } if srcs.len() > 1 => vec![HOp::Merge { srcs: srcs[..1].to_vec(), probe: *probe }],
            _ => vec![],
        }
    }
}
