//! Engine for C11 at depth: a composition containing CollapseSequence is run in lockstep with its
//! twin *type without the wrapper*. Reads must be identical; where only payload bytes can differ,
//! `used(twin) - used(collapsed)` must equal the payload of exactly the consecutive repeats in the
//! model's per-stream sequences.

use crate::guard::catch;
use crate::observe::Cx;
use crate::rng::{Digest, Rng};
use crate::scen::{SOut, Scenario};
use crate::spec::Spec;
use crate::sut::{RegionSut, Sut};
use crate::value::{Gen, Knobs, Value};
use serde_json::{json, Value as J};
use std::collections::BTreeMap;
use std::marker::PhantomData;

#[derive(Clone, Debug)]
pub enum TOp<V> {
    Push { v: V, form: usize },
    Clear,
    Merge,
    Clone,
    Restart,
    /// both sides `clone_from` a fresh source that received the first `k` values pushed so far
    CloneFrom { k: usize },
}

/// (stream id, equality key, payload bytes) for every collapsible leaf of a value, in push order.
pub type Streams<V> = fn(&V, &mut Vec<(usize, Vec<u8>, usize)>);

pub struct TwinScen<A: Spec, B: Spec<Val = A::Val>> {
    pub streams: Streams<A::Val>,
    /// payload bytes are the only storage that can differ between the two types
    pub byte_identity: bool,
    /// the first heap_size pair is the column vector, whose element size depends on the column *type*
    pub skip_first_pair: bool,
    pub _m: PhantomData<fn() -> (A, B)>,
}
impl<A: Spec, B: Spec<Val = A::Val>> Clone for TwinScen<A, B> {
    fn clone(&self) -> Self {
        TwinScen { streams: self.streams, byte_identity: self.byte_identity, skip_first_pair: self.skip_first_pair, _m: PhantomData }
    }
}

fn used_from<T: Sut>(t: &T, skip: usize) -> usize {
    t.heap().map(|h| h.iter().skip(skip).map(|p| p.0).sum()).unwrap_or(0)
}

impl<A: Spec, B: Spec<Val = A::Val>> Scenario for TwinScen<A, B> {
    type Op = TOp<A::Val>;
    fn name(&self) -> String {
        format!("{} ~ {}", A::NAME, B::NAME)
    }
    fn engine(&self) -> &'static str {
        "twin"
    }
    fn gen(&self, rng: &mut Rng, thorough: bool, _index: u64) -> Vec<Self::Op> {
        let mut knobs = Knobs::draw(rng, 6);
        knobs.small_domain = 1 + rng.below(4) as u8;
        knobs.nonfinite = false;
        let n = 2 + rng.below(if thorough { 120 } else { 40 });
        let w = [80u32, *rng.pick(&[0u32, 4, 10]), *rng.pick(&[0u32, 4]), *rng.pick(&[0u32, 4]), *rng.pick(&[0u32, 4])];
        let mut last: Option<A::Val> = None;
        let mut ops = Vec::new();
        for _ in 0..n {
            match rng.weighted(&w) {
                0 => {
                    let v = match &last {
                        Some(l) if rng.chance(1, 3) => l.clone(),
                        _ => A::Val::gen(&mut Gen::new(rng, &mut knobs)),
                    };
                    last = Some(v.clone());
                    ops.push(TOp::Push { v, form: if rng.coin() { 0 } else { rng.below(A::NFORMS.min(B::NFORMS)) } });
                }
                1 => ops.push(TOp::Clear),
                2 => ops.push(TOp::Merge),
                3 => ops.push(if rng.coin() { TOp::Clone } else { TOp::CloneFrom { k: rng.below(3) } }),
                _ => ops.push(TOp::Restart),
            }
        }
        ops
    }
    fn exec(&self, ops: &[Self::Op]) -> SOut {
        let mut out = SOut::default();
        let mut dig = Digest::default();
        let mut cx = Cx::default();
        let skip = self.skip_first_pair as usize;
        let used_of_a = |t: &RegionSut<A>| used_from(t, skip);
        let used_of_b = |t: &RegionSut<B>| used_from(t, skip);
        let fail = |o: &str, step: usize, d: String| Some((format!("C11/twin/{o}"), step, d));
        let mut a: RegionSut<A> = RegionSut::new();
        let mut b: RegionSut<B> = RegionSut::new();
        let mut ma: Vec<(A::Idx, A::Val)> = Vec::new();
        let mut mb: Vec<(B::Idx, A::Val)> = Vec::new();
        let mut last: BTreeMap<usize, Vec<u8>> = BTreeMap::new();
        let mut saving: usize = 0;
        // used bytes at the last reset (both sides start from their own baseline)
        let mut base = (used_of_a(&a), used_of_b(&b));
        for (step, op) in ops.iter().enumerate() {
            out.steps += 1;
            match op {
                TOp::Push { v, form } => {
                    let ra = catch(|| a.push(v, form % A::NFORMS));
                    let rb = catch(|| b.push(v, form % B::NFORMS));
                    match (ra, rb) {
                        (Ok(ha), Ok(hb)) => {
                            ma.push((ha, v.clone()));
                            mb.push((hb, v.clone()));
                        }
                        (Err(p), _) | (_, Err(p)) => {
                            out.fail = fail("push-panicked", step, format!("push of {} panicked: {}", v.render(), p.short()));
                            return out;
                        }
                    }
                    let mut st = Vec::new();
                    (self.streams)(v, &mut st);
                    for (id, key, bytes) in st {
                        match last.get(&id) {
                            Some(prev) if *prev == key => {
                                saving += bytes;
                                out.hit("repeat_in_stream");
                            }
                            _ => {
                                last.insert(id, key);
                                out.hit("new_in_stream");
                            }
                        }
                    }
                    dig.str(&v.render());
                }
                TOp::Clear => {
                    let r = catch(|| {
                        a.clear();
                        b.clear();
                    });
                    if let Err(p) = r {
                        out.fail = fail("clear-panicked", step, p.short());
                        return out;
                    }
                    ma.clear();
                    mb.clear();
                    last.clear();
                    saving = 0;
                    base = (used_of_a(&a), used_of_b(&b));
                    out.hit("clear");
                }
                TOp::Merge => {
                    let r = catch(|| (RegionSut::<A>::merge(&[&a]), RegionSut::<B>::merge(&[&b])));
                    match r {
                        Ok((na, nb)) => {
                            a = na;
                            b = nb;
                        }
                        Err(p) => {
                            out.fail = fail("merge-panicked", step, p.short());
                            return out;
                        }
                    }
                    ma.clear();
                    mb.clear();
                    last.clear();
                    saving = 0;
                    base = (used_of_a(&a), used_of_b(&b));
                    out.hit("merge");
                }
                TOp::Clone => {
                    if let (Some(na), Some(nb)) = (a.try_clone(), b.try_clone()) {
                        a = na;
                        b = nb;
                        out.hit("clone_boundary");
                    }
                }
                TOp::CloneFrom { k } => {
                    // a source with a shorter history; the destination keeps whatever columns,
                    // dedup memory and allocations it had: none of that may show afterwards
                    let keep: Vec<A::Val> = ma.iter().take(*k).map(|m| m.1.clone()).collect();
                    let r = catch(|| {
                        let mut sa: RegionSut<A> = RegionSut::new();
                        let mut sb: RegionSut<B> = RegionSut::new();
                        let ha: Vec<A::Idx> = keep.iter().map(|v| sa.push(v, 0)).collect();
                        let hb: Vec<B::Idx> = keep.iter().map(|v| sb.push(v, 0)).collect();
                        let ok = a.try_clone_from(&sa) && b.try_clone_from(&sb);
                        (ok, ha, hb)
                    });
                    match r {
                        Ok((true, ha, hb)) => {
                            ma = ha.into_iter().zip(keep.iter().cloned()).collect();
                            mb = hb.into_iter().zip(keep.iter().cloned()).collect();
                            last.clear();
                            saving = 0;
                            // replay the kept values through the stream model (their repeats were
                            // already collapsed inside the source; the baseline absorbs them)
                            for v in &keep {
                                let mut st = Vec::new();
                                (self.streams)(v, &mut st);
                                for (id, key, _) in st {
                                    last.insert(id, key);
                                }
                            }
                            base = (used_of_a(&a), used_of_b(&b));
                            out.hit("clone_from_boundary");
                        }
                        Ok((false, _, _)) => {}
                        Err(p) => {
                            out.fail = fail("clone_from-panicked", step, p.short());
                            return out;
                        }
                    }
                }
                TOp::Restart => {
                    if ma.iter().any(|(_, v)| !v.json_safe()) {
                        continue;
                    }
                    let ta = a.ser();
                    let tb = b.ser();
                    if let (Some(Ok(ta)), Some(Ok(tb))) = (ta, tb) {
                        match (RegionSut::<A>::de(&ta), RegionSut::<B>::de(&tb)) {
                            (Some(Ok(na)), Some(Ok(nb))) => {
                                a = na;
                                b = nb;
                                out.hit("restart_boundary");
                            }
                            _ => {
                                out.fail = fail("restart-failed", step, "deserialising the crate's own output failed".into());
                                return out;
                            }
                        }
                    }
                }
            }
            // reads identical on both sides (each against the shared model)
            cx.full = ma.len() <= 16;
            for (i, (h, v)) in ma.iter().enumerate() {
                let r = catch(|| a.check(h, v, &mut cx));
                let bad = match r {
                    Ok(Ok(())) => None,
                    Ok(Err(f)) => Some(f.detail),
                    Err(p) => Some(p.short()),
                };
                if let Some(d) = bad {
                    out.fail = fail("collapsed-side-reads-differently", step, format!("item {i} of {} in {}: {d}", ma.len(), A::NAME));
                    return out;
                }
            }
            for (i, (h, v)) in mb.iter().enumerate() {
                let r = catch(|| b.check(h, v, &mut cx));
                if !matches!(r, Ok(Ok(()))) {
                    // the twin is plain library code too, but its failures belong to C01/C02
                    out.fail = Some(("foreign/twin-side-reads-differently".into(), step, format!("item {i} in {}", B::NAME)));
                    return out;
                }
            }
            out.hits("items_read", (ma.len() + mb.len()) as u64);
            if self.byte_identity {
                let ua = used_of_a(&a) - base.0.min(used_of_a(&a));
                let ub = used_of_b(&b) - base.1.min(used_of_b(&b));
                if ub < ua || ub - ua != saving {
                    out.fail = fail(
                        "collapse-savings-differ",
                        step,
                        format!("without the wrapper {ub} payload/index bytes are used, with it {ua}; the consecutive repeats in the per-stream sequences account for {saving} bytes, not {}", ub as i64 - ua as i64),
                    );
                    return out;
                }
                out.hit("savings_checked");
            }
        }
        out.digest = dig.0;
        out.nontrivial = out.probes.get("repeat_in_stream").copied().unwrap_or(0) > 0 && ops.len() >= 3;
        out
    }
    fn op_json(&self, op: &Self::Op) -> J {
        match op {
            TOp::Push { v, form } => json!({"op":"Push","form":form,"v":v.to_json()}),
            TOp::Clear => json!({"op":"Clear"}),
            TOp::Merge => json!({"op":"Merge"}),
            TOp::Clone => json!({"op":"Clone"}),
            TOp::Restart => json!({"op":"Restart"}),
            TOp::CloneFrom { k } => json!({"op":"CloneFrom","k":k}),
        }
    }
    fn op_from_json(&self, j: &J) -> Option<Self::Op> {
        Some(match j.get("op")?.as_str()? {
            "Push" => TOp::Push { v: A::Val::from_json(j.get("v")?)?, form: j.get("form")?.as_u64()? as usize },
            "Clear" => TOp::Clear,
            "Merge" => TOp::Merge,
            "Clone" => TOp::Clone,
            "Restart" => TOp::Restart,
            "CloneFrom" => TOp::CloneFrom { k: j.get("k")?.as_u64()? as usize },
            _ => return None,
        })
    }
    fn shrink(&self, op: &Self::Op) -> Vec<Self::Op> {
        match op {
            TOp::Push { v, form } => {
                let mut o: Vec<Self::Op> = v.shrinks().into_iter().take(8).map(|s| TOp::Push { v: s, form: *form }).collect();
                if *form != 0 {
                    o.push(TOp::Push { v: v.clone(), form: 0 });
                }
                o
            }
            _ => vec![],
        }
    }
}
