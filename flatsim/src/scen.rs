//! A small framework shared by the property-specific engines (index containers, Huffman,
//! dictionary codec, allocation discipline, collapse twins): seeded generation of an explicit
//! operation list, execution against the real code with an oracle, delta-debugging minimisation,
//! replay, and batch statistics — the same contract as the general history simulator.

use crate::rng::{fnv, splitmix64, Rng};
use crate::runner::{BatchCfg, BatchOut};
use serde_json::{json, Value as J};
use std::collections::{BTreeMap, HashSet};

#[derive(Clone, Debug, Default)]
pub struct SOut {
    /// (oracle, step, detail)
    pub fail: Option<(String, usize, String)>,
    pub digest: u64,
    pub steps: usize,
    pub probes: BTreeMap<&'static str, u64>,
    pub nontrivial: bool,
    /// an oracle that belongs to a different property fired (run abandoned quietly, counted)
    pub foreign: Option<String>,
}

impl SOut {
    pub fn hit(&mut self, p: &'static str) {
        *self.probes.entry(p).or_insert(0) += 1;
    }
    pub fn hits(&mut self, p: &'static str, n: u64) {
        *self.probes.entry(p).or_insert(0) += n;
    }
}

pub trait Scenario: Sync {
    type Op: Clone + Send;
    fn name(&self) -> String;
    fn engine(&self) -> &'static str;
    /// Generate the schedule of run `index` (runs below `stratified()` are decoded from the index
    /// itself, so that a bounded space is visited exactly once; the rest come from `rng`).
    fn gen(&self, rng: &mut Rng, thorough: bool, index: u64) -> Vec<Self::Op>;
    fn stratified(&self, _thorough: bool) -> u64 {
        0
    }
    fn exec(&self, ops: &[Self::Op]) -> SOut;
    fn op_json(&self, op: &Self::Op) -> J;
    fn op_from_json(&self, j: &J) -> Option<Self::Op>;
    fn shrink(&self, _op: &Self::Op) -> Vec<Self::Op> {
        Vec::new()
    }
}

pub fn minimise<S: Scenario>(s: &S, ops: Vec<S::Op>, oracle: &str, budget: usize) -> (Vec<S::Op>, (String, usize, String), usize) {
    let same = |out: &SOut| -> Option<(String, usize, String)> {
        match &out.fail {
            Some(f) if f.0 == oracle => Some(f.clone()),
            _ => None,
        }
    };
    let mut execs = 0usize;
    let mut best = ops;
    let mut best_f = same(&s.exec(&best)).expect("minimise: failure does not reproduce");
    if best_f.1 + 1 < best.len() {
        let cand = best[..=best_f.1].to_vec();
        if let Some(f) = same(&s.exec(&cand)) {
            best = cand;
            best_f = f;
        }
    }
    loop {
        let mut progress = false;
        let mut chunk = (best.len() / 2).max(1);
        loop {
            let mut i = 0;
            while i < best.len() && execs < budget {
                let end = (i + chunk).min(best.len());
                let mut cand = best.clone();
                cand.drain(i..end);
                execs += 1;
                if let Some(f) = same(&s.exec(&cand)) {
                    best = cand;
                    best_f = f;
                    progress = true;
                } else {
                    i += chunk;
                }
            }
            if chunk == 1 || execs >= budget {
                break;
            }
            chunk /= 2;
        }
        let mut i = 0;
        while i < best.len() && execs < budget {
            let mut improved = false;
            for c in s.shrink(&best[i]) {
                if execs >= budget {
                    break;
                }
                let mut cand = best.clone();
                cand[i] = c;
                execs += 1;
                if let Some(f) = same(&s.exec(&cand)) {
                    best = cand;
                    best_f = f;
                    improved = true;
                    progress = true;
                    break;
                }
            }
            if !improved {
                i += 1;
            }
        }
        if !progress || execs >= budget {
            break;
        }
    }
    (best, best_f, execs)
}

pub fn replay_doc<S: Scenario>(s: &S, prop: u8, profile: &str, seed: u64, ops: &[S::Op], f: &(String, usize, String)) -> J {
    json!({
        "property": format!("C{prop:02}"),
        "engine": s.engine(),
        "composition": s.name(),
        "profile": profile,
        "seed": seed,
        "ops": ops.iter().map(|o| s.op_json(o)).collect::<Vec<_>>(),
        "violation": {"oracle": f.0, "step": f.1, "detail": f.2, "signature": f.0},
    })
}

pub fn run_scenario<S: Scenario>(s: &S, bc: &BatchCfg) -> BatchOut {
    let start = std::time::Instant::now();
    let threads = bc.threads.max(1);
    let name = s.name();
    let strat = s.stratified(bc.thorough);
    struct W {
        runs: u64,
        steps: u64,
        probes: BTreeMap<&'static str, u64>,
        digests: HashSet<u64>,
        nontrivial: HashSet<u64>,
        batch_digest: u64,
        viol: Option<(u64, J)>,
        samples: Vec<(u64, J)>,
        strat_done: u64,
        foreign: u64,
    }
    let total = bc.runs.max(strat.min(bc.runs));
    let ws: Vec<W> = std::thread::scope(|sc| {
        let mut hs = Vec::new();
        for w in 0..threads {
            let name = name.clone();
            hs.push(sc.spawn(move || {
                let mut st = W { runs: 0, steps: 0, probes: BTreeMap::new(), digests: HashSet::new(), nontrivial: HashSet::new(), batch_digest: 0, viol: None, samples: Vec::new(), strat_done: 0, foreign: 0 };
                let mut i = w as u64;
                while i < total {
                    if st.viol.is_some() || start.elapsed().as_secs_f64() > bc.max_secs {
                        break;
                    }
                    let mut sd = bc.base_seed.wrapping_add(i);
                    let seed = splitmix64(&mut sd) ^ fnv(format!("C{:02}|{}", bc.prop, name).as_bytes());
                    let mut rng = Rng::new(seed);
                    let ops = s.gen(&mut rng, bc.thorough, i);
                    let out = s.exec(&ops);
                    st.runs += 1;
                    if i < strat {
                        st.strat_done += 1;
                    }
                    st.steps += out.steps as u64;
                    for (k, v) in &out.probes {
                        *st.probes.entry(k).or_insert(0) += v;
                    }
                    st.digests.insert(out.digest);
                    if out.nontrivial {
                        st.nontrivial.insert(out.digest);
                    }
                    let mut mix = seed ^ out.digest;
                    st.batch_digest = st.batch_digest.wrapping_add(splitmix64(&mut mix));
                    if out.foreign.is_some() {
                        st.foreign += 1;
                    }
                    match &out.fail {
                        None => {
                            if st.samples.len() < 2 && ops.len() >= 3 && ops.len() <= 10 && out.nontrivial {
                                st.samples.push((i, json!({"seed": seed, "ops": ops.iter().map(|o| s.op_json(o)).collect::<Vec<_>>()})));
                            }
                        }
                        Some(f) => {
                            let (mops, mf, execs) = minimise(s, ops.clone(), &f.0, 3000);
                            let mut rj = replay_doc(s, bc.prop, &bc.profile, seed, &mops, &mf);
                            rj["minimisation"] = json!({"original_ops": ops.len(), "minimised_ops": mops.len(), "executions": execs});
                            st.viol = Some((i, rj));
                        }
                    }
                    i += threads as u64;
                }
                st
            }));
        }
        hs.into_iter().map(|h| h.join().expect("worker")).collect()
    });
    let mut out = BatchOut { sut: name, probes: vec![0; crate::observe::NPROBES], kinds: vec![0; crate::ops::NKINDS], ..Default::default() };
    let mut digests = HashSet::new();
    let mut nontrivial = HashSet::new();
    let mut viol: Option<(u64, J)> = None;
    let mut samples = Vec::new();
    let mut strat_done = 0;
    for w in ws {
        out.runs += w.runs;
        out.steps += w.steps;
        out.state_steps += w.steps;
        for (k, v) in w.probes {
            *out.xprobes.entry(k.to_string()).or_insert(0) += v;
        }
        digests.extend(w.digests);
        nontrivial.extend(w.nontrivial);
        out.batch_digest = out.batch_digest.wrapping_add(w.batch_digest);
        if let Some((i, j)) = w.viol {
            if viol.as_ref().map(|(k, _)| i < *k).unwrap_or(true) {
                viol = Some((i, j));
            }
        }
        samples.extend(w.samples);
        strat_done += w.strat_done;
        out.foreign += w.foreign;
    }
    samples.sort_by_key(|s: &(u64, J)| s.0);
    out.samples = samples.into_iter().take(2).map(|s| s.1).collect();
    out.distinct = digests.len() as u64;
    out.distinct_nontrivial = nontrivial.len() as u64;
    out.violation = viol.map(|v| v.1);
    out.stratified_total = strat;
    out.stratified_done = strat_done;
    out.wall_s = start.elapsed().as_secs_f64();
    out
}

pub fn replay_scenario<S: Scenario>(s: &S, j: &J) -> Result<SOut, String> {
    let ops: Option<Vec<S::Op>> = j.get("ops").and_then(J::as_array).ok_or("replay: no ops")?.iter().map(|o| s.op_from_json(o)).collect();
    Ok(s.exec(&ops.ok_or("replay: bad op")?))
}
