//! Engine for the bare index containers (C05) and their documented space cost (C19).
//!
//! Histories are sequences over a transition-covering alphabet whose letters are resolved against
//! the *current* state ("next stride multiple", "repeat last", "break by +1", …), so that every
//! sub-sequence is meaningful. A reserved prefix of the run indices is decoded mixed-radix into
//! the letter sequence itself, so every history up to a bounded length is visited exactly once.

use crate::alloc;
use crate::guard::catch;
use crate::rng::{Digest, Rng};
use crate::scen::{SOut, Scenario};
use flatcontainer::impls::deduplicate::ConsecutiveIndexPairs;
use flatcontainer::impls::index::{IndexContainer, IndexList, IndexOptimized, Stride};
use flatcontainer::impls::storage::Storage;
use flatcontainer::{ColumnsRegion, FlatStack, MirrorRegion, StringRegion};
use serde_json::{json, Value as J};

#[derive(Clone, Debug)]
pub enum IOp {
    Letter(u8),
    Val(usize),
    Clear,
    Extend(Vec<usize>),
    Reserve(usize),
    /// serialise to JSON text, drop, deserialise (C16 for bare index containers)
    Restart,
}

pub const NLETTERS: u64 = 10;

fn letter_value(l: u8, m: &[usize]) -> Option<usize> {
    let last = m.last().copied().unwrap_or(0);
    Some(match l {
        0 => 0,
        1 => {
            if m.len() >= 2 {
                last.wrapping_add(m[1].wrapping_sub(m[0]))
            } else {
                7
            }
        }
        2 => last,
        3 => last.wrapping_add(1),
        4 => u32::MAX as usize,
        5 => u32::MAX as usize + 1,
        6 => 1usize << 63,
        7 => usize::MAX,
        8 => 3,
        _ => return None, // 9 = clear
    })
}

/// The documented pattern `0, s, 2s, …` then repeats of the last element, in exact arithmetic.
pub fn stride_valid(seq: &[usize]) -> bool {
    let n = seq.len();
    if n == 0 {
        return true;
    }
    if seq[0] != 0 {
        return false;
    }
    if n == 1 {
        return true;
    }
    let s = seq[1] as u128;
    // longest strided prefix
    let mut k = 2;
    while k < n && (seq[k] as u128) == s * (k as u128) {
        k += 1;
    }
    // the rest must repeat the last strided element s*(k-1)
    let last = s * ((k - 1) as u128);
    seq[k..].iter().all(|x| (*x as u128) == last)
}

trait Ic {
    fn new() -> Self;
    /// returns false if the container rejected the value (only Stride can)
    fn push(&mut self, v: usize) -> bool;
    fn extend(&mut self, vs: &[usize]) -> bool;
    fn len(&self) -> usize;
    fn is_empty(&self) -> bool;
    fn index(&self, i: usize) -> usize;
    fn iter_take(&self, n: usize) -> Vec<usize>;
    /// (iter().skip(k) collected, iter().nth(k) followed by the rest, iter().step_by(2) collected), each bounded
    fn iter_adaptors(&self, k: usize, bound: usize) -> (Vec<usize>, Vec<usize>, Vec<usize>);
    fn clear(&mut self);
    fn reserve(&mut self, n: usize);
    fn heap(&self) -> Vec<(usize, usize)>;
    fn fingerprint(&self) -> String;
    fn full_debug(&self) -> String;
    fn restart(&self) -> Result<Self, String>
    where
        Self: Sized;
}

impl Ic for Stride {
    fn new() -> Self {
        Stride::default()
    }
    fn push(&mut self, v: usize) -> bool {
        Stride::push(self, v)
    }
    fn extend(&mut self, vs: &[usize]) -> bool {
        let mut all = true;
        for v in vs {
            all &= Stride::push(self, *v);
        }
        all
    }
    fn len(&self) -> usize {
        Stride::len(self)
    }
    fn is_empty(&self) -> bool {
        Stride::is_empty(self)
    }
    fn index(&self, i: usize) -> usize {
        Stride::index(self, i)
    }
    fn iter_take(&self, n: usize) -> Vec<usize> {
        self.iter().take(n).collect()
    }
    fn iter_adaptors(&self, k: usize, bound: usize) -> (Vec<usize>, Vec<usize>, Vec<usize>) {
        let a = self.iter().skip(k).take(bound).collect();
        let mut it = self.iter();
        let mut b: Vec<usize> = it.nth(k).into_iter().collect();
        for x in it.take(bound) {
            b.push(x);
        }
        let c = self.iter().step_by(2).take(bound).collect();
        (a, b, c)
    }
    fn clear(&mut self) {
        Stride::clear(self)
    }
    fn reserve(&mut self, _n: usize) {}
    fn heap(&self) -> Vec<(usize, usize)> {
        vec![]
    }
    fn fingerprint(&self) -> String {
        format!("{:?}", self)
    }
    fn full_debug(&self) -> String {
        format!("{:?}", self)
    }
    fn restart(&self) -> Result<Self, String> {
        let text = serde_json::to_string(self).map_err(|e| e.to_string())?;
        serde_json::from_str(&text).map_err(|e| format!("{e} (text {text})"))
    }
}

macro_rules! ic_container {
    ($t:ty) => {
        impl Ic for $t {
            fn new() -> Self {
                Default::default()
            }
            fn push(&mut self, v: usize) -> bool {
                IndexContainer::push(self, v);
                true
            }
            fn extend(&mut self, vs: &[usize]) -> bool {
                IndexContainer::extend(self, vs.iter().copied());
                true
            }
            fn len(&self) -> usize {
                Storage::len(self)
            }
            fn is_empty(&self) -> bool {
                Storage::is_empty(self)
            }
            fn index(&self, i: usize) -> usize {
                IndexContainer::index(self, i)
            }
            fn iter_take(&self, n: usize) -> Vec<usize> {
                IndexContainer::iter(self).take(n).collect()
            }
            fn iter_adaptors(&self, k: usize, bound: usize) -> (Vec<usize>, Vec<usize>, Vec<usize>) {
                let a = IndexContainer::iter(self).skip(k).take(bound).collect();
                let mut it = IndexContainer::iter(self);
                let mut b: Vec<usize> = it.nth(k).into_iter().collect();
                for x in it.take(bound) {
            b.push(x);
        }
                let c = IndexContainer::iter(self).step_by(2).take(bound).collect();
                (a, b, c)
            }
            fn clear(&mut self) {
                Storage::clear(self)
            }
            fn reserve(&mut self, n: usize) {
                Storage::reserve(self, n)
            }
            fn heap(&self) -> Vec<(usize, usize)> {
                let mut v = Vec::new();
                Storage::heap_size(self, |u, c| v.push((u, c)));
                v
            }
            fn fingerprint(&self) -> String {
                let d = format!("{:?}", self);
                // variant / phase only: strip digits
                d.chars().filter(|c| !c.is_ascii_digit()).take(80).collect()
            }
            fn full_debug(&self) -> String {
                format!("{:?}", self)
            }
            fn restart(&self) -> Result<Self, String> {
                let text = serde_json::to_string(self).map_err(|e| e.to_string())?;
                serde_json::from_str(&text).map_err(|e| format!("{e} (text {})", crate::trunc(&text, 200)))
            }
        }
    };
}
ic_container!(IndexOptimized);
ic_container!(IndexList<Vec<u32>, Vec<u64>>);
ic_container!(Vec<usize>);

#[derive(Clone)]
pub struct IdxScen {
    /// 0 Stride, 1 IndexOptimized, 2 IndexList, 3 Vec<usize>, 4 FlatStack<Pairs<Str>,Opt>, 5 FlatStack<Columns<u8>,Opt>
    pub container: u8,
    /// 5 or 19
    pub prop: u8,
}

fn spill_cost(rem: &[usize]) -> usize {
    let mut cost = 0;
    let mut wide = false;
    for v in rem {
        if *v > u32::MAX as usize {
            wide = true;
        }
        cost += if wide { 8 } else { 4 };
    }
    cost
}

impl IdxScen {
    fn run<C: Ic>(&self, ops: &[IOp]) -> SOut {
        let mut out = SOut::default();
        let mut dig = Digest::default();
        let is_stride = self.container == 0;
        let r = catch(|| alloc::with_owner(1, C::new));
        let mut c = match r {
            Ok(c) => c,
            Err(p) => {
                out.fail = Some((format!("C{:02}/idx/default-panicked", self.prop), 0, p.short()));
                return out;
            }
        };
        alloc::reset();
        let mut model: Vec<usize> = Vec::new();
        // IndexOptimized cost model: accepted stride prefix length (None once spilled)
        let mut stride_prefix: usize = 0;
        let mut spilled = false;
        let mut ever_spilled = false;
        let mut wide_seen = false;
        let fail = |oracle: &str, step: usize, detail: String| Some((format!("C{:02}/idx/{}", self.prop, oracle), step, detail));
        for (step, op) in ops.iter().enumerate() {
            out.steps += 1;
            let vals: Vec<usize> = match op {
                IOp::Letter(l) => match letter_value(*l, &model) {
                    Some(v) => vec![v],
                    None => vec![],
                },
                IOp::Val(v) => vec![*v],
                IOp::Extend(vs) => vs.clone(),
                IOp::Clear | IOp::Reserve(_) | IOp::Restart => vec![],
            };
            let is_clear = matches!(op, IOp::Clear | IOp::Letter(9));
            if is_clear {
                if let Err(p) = catch(|| alloc::with_owner(1, || c.clear())) {
                    out.fail = fail("panicked", step, format!("clear panicked: {}", p.short()));
                    return out;
                }
                if !model.is_empty() {
                    out.hit("clear_nonempty");
                }
                if spilled {
                    out.hit("clear_after_spill");
                }
                model.clear();
                stride_prefix = 0;
                spilled = false;
                wide_seen = false;
                dig.str("clear");
            } else if let IOp::Restart = op {
                let before = c.full_debug();
                match catch(|| alloc::with_owner(1, || c.restart())) {
                    Ok(Ok(n)) => {
                        if n.full_debug() != before && model.len() <= 64 {
                            out.fail = fail("restart-changed-state", step, format!("state {} became {} through its own serialisation", crate::trunc(&before, 200), crate::trunc(&n.full_debug(), 200)));
                            return out;
                        }
                        let old = std::mem::replace(&mut c, n);
                        let _ = catch(move || alloc::with_owner(1, move || drop(old)));
                        out.hit("restart");
                        if spilled {
                            out.hit("restart_after_spill");
                        }
                    }
                    Ok(Err(e)) => {
                        out.fail = fail("restart-failed", step, format!("deserialising the container's own output failed: {e}"));
                        return out;
                    }
                    Err(p) => {
                        out.fail = fail("panicked", step, format!("serialise/deserialise panicked: {}", p.short()));
                        return out;
                    }
                }
            } else if let IOp::Reserve(n) = op {
                if let Err(p) = catch(|| alloc::with_owner(1, || c.reserve(*n))) {
                    out.fail = fail("panicked", step, format!("reserve({n}) panicked: {}", p.short()));
                    return out;
                }
            } else {
                let use_extend = matches!(op, IOp::Extend(_)) && !is_stride;
                if use_extend {
                    let before = c.fingerprint();
                    match catch(|| alloc::with_owner(1, || c.extend(&vals))) {
                        Ok(_) => {}
                        Err(p) => {
                            out.fail = fail("panicked", step, format!("extend({:?}) in state {} panicked: {}", vals, before, p.short()));
                            return out;
                        }
                    }
                    for v in &vals {
                        self.account(&mut model, *v, &mut stride_prefix, &mut spilled, &mut ever_spilled, &mut wide_seen, &mut out);
                    }
                    out.hit("extend");
                } else {
                    for v in &vals {
                        let before_dbg = c.fingerprint();
                        let r = catch(|| alloc::with_owner(1, || c.push(*v)));
                        let accepted = match r {
                            Ok(a) => a,
                            Err(p) => {
                                out.fail = fail("panicked", step, format!("push({v}) after {:?} panicked: {}", tail(&model), p.short()));
                                return out;
                            }
                        };
                        if is_stride {
                            let mut ext = model.clone();
                            ext.push(*v);
                            let want = stride_valid(&ext);
                            if accepted != want {
                                out.fail = fail(
                                    if accepted { "stride-accepted-outside-pattern" } else { "stride-rejected-inside-pattern" },
                                    step,
                                    format!("Stride::push({v}) after {:?} returned {accepted}; the documented pattern says {want}", tail(&model)),
                                );
                                return out;
                            }
                            if !accepted {
                                out.hit("stride_reject");
                                if c.fingerprint() != before_dbg {
                                    out.fail = fail("stride-reject-mutated", step, format!("rejected push({v}) changed the state from {before_dbg} to {}", c.fingerprint()));
                                    return out;
                                }
                                continue;
                            }
                            model.push(*v);
                        } else {
                            self.account(&mut model, *v, &mut stride_prefix, &mut spilled, &mut ever_spilled, &mut wide_seen, &mut out);
                        }
                        dig.u64(*v as u64);
                    }
                }
            }
            // ---- invariants after every step ----
            let n = model.len();
            let chk = catch(|| -> Result<(), String> {
                if c.len() != n {
                    return Err(format!("len() = {} expected {n}", c.len()));
                }
                if c.is_empty() != (n == 0) {
                    return Err(format!("is_empty() = {} with {n} elements", c.is_empty()));
                }
                let every = if n <= 64 { 1 } else { n / 32 };
                let mut i = 0;
                while i < n {
                    let g = c.index(i);
                    if g != model[i] {
                        return Err(format!("index({i}) = {g} expected {} (sequence tail {:?})", model[i], tail(&model)));
                    }
                    i += every;
                }
                if n > 0 {
                    let g = c.index(n - 1);
                    if g != model[n - 1] {
                        return Err(format!("index({}) = {g} expected {}", n - 1, model[n - 1]));
                    }
                }
                if n <= 256 || step + 1 == ops.len() {
                    let it = c.iter_take(n + 1);
                    if it != model {
                        return Err(format!("iter() yields {:?}… ({} items) expected {:?}… ({n} items)", tail(&it), it.len(), tail(&model)));
                    }
                    if n > 0 {
                        // adaptors with possible fast paths: skip, nth, step_by, at a rotating position
                        let k = step % n;
                        let (a, b, s2) = c.iter_adaptors(k, n + 1);
                        if a != model[k..] {
                            return Err(format!("iter().skip({k}) yields {:?} expected {:?}", tail(&a), tail(&model[k..])));
                        }
                        if b != model[k..] {
                            return Err(format!("iter().nth({k}) then the rest yields {:?} expected {:?}", tail(&b), tail(&model[k..])));
                        }
                        let want: Vec<usize> = model.as_slice().iter().copied().step_by(2).collect();
                        if s2 != want {
                            return Err(format!("iter().step_by(2) yields {:?} expected {:?}", tail(&s2), tail(&want)));
                        }
                    }
                }
                Ok(())
            });
            match chk {
                Ok(Ok(())) => {}
                Ok(Err(d)) => {
                    out.fail = fail("sequence-differs", step, d);
                    return out;
                }
                Err(p) => {
                    out.fail = fail("panicked", step, format!("reading back {} elements panicked: {}", n, p.short()));
                    return out;
                }
            }
            dig.str(&c.fingerprint());
            // ---- C19: documented space cost ----
            if self.prop == 19 && (self.container == 1 || self.container == 2) {
                let expected = if self.container == 1 { spill_cost(&model[stride_prefix.min(n)..]) } else { spill_cost(&model) };
                let heap = c.heap();
                let used: usize = heap.iter().map(|p| p.0).sum();
                let cap: usize = heap.iter().map(|p| p.1).sum();
                let live = alloc::snap(1).live.max(0) as usize;
                if used != expected {
                    out.fail = fail("cost-differs", step, format!("Σused = {used} but the documented rule gives {expected} bytes for {:?} (stride prefix {stride_prefix})", tail(&model)));
                    return out;
                }
                // IndexList::reserve may allocate its u32 half; IndexOptimized must stay heap-free while
                // nothing has spilled, whatever was reserved
                let reserve_excuses = self.container == 2 && ops[..=step].iter().any(|o| matches!(o, IOp::Reserve(_)));
                if expected == 0 && !ever_spilled && !reserve_excuses {
                    out.hit("zero_cost_state");
                    if cap != 0 || live != 0 {
                        out.fail = fail("heap-for-free-shape", step, format!("a free-shaped sequence {:?} reports capacity {cap} and holds {live} live bytes", tail(&model)));
                        return out;
                    }
                } else if expected > 0 && live > 2 * expected + 64 && !ops[..=step].iter().any(|o| matches!(o, IOp::Reserve(_) | IOp::Clear | IOp::Letter(9) | IOp::Restart)) {
                    out.fail = fail("live-bytes-exceed-bound", step, format!("{live} live bytes for a documented cost of {expected}"));
                    return out;
                }
                out.hit("cost_checked");
            }
        }
        let _ = catch(move || alloc::with_owner(1, move || drop(c)));
        out.digest = dig.0;
        out.nontrivial = ops.len() >= 2 && (out.probes.contains_key("stride_to_spill") || out.probes.contains_key("stride_reject") || out.probes.contains_key("u32_to_u64") || out.probes.contains_key("saturated") || model.len() >= 3);
        out
    }

    #[allow(clippy::too_many_arguments)]
    fn account(&self, model: &mut Vec<usize>, v: usize, stride_prefix: &mut usize, spilled: &mut bool, ever: &mut bool, wide: &mut bool, out: &mut SOut) {
        model.push(v);
        if self.container == 1 {
            if !*spilled && stride_valid(&model[..]) && *stride_prefix + 1 == model.len() {
                *stride_prefix = model.len();
                if model.len() >= 3 && model[model.len() - 1] == model[model.len() - 2] && model[1] != 0 {
                    out.hit("saturated");
                }
            } else {
                if !*spilled {
                    out.hit("stride_to_spill");
                    if model.len() > 1 {
                        out.hit("spill_with_live_prefix");
                    }
                }
                *spilled = true;
                *ever = true;
            }
        } else {
            *spilled = true;
            *ever = true;
        }
        if (*spilled || self.container == 2) && v > u32::MAX as usize && !*wide {
            *wide = true;
            out.hit("u32_to_u64");
            if model.len() > 1 {
                out.hit("u32_to_u64_with_live");
            }
        }
    }

    fn run_stack(&self, ops: &[IOp]) -> SOut {
        let mut out = SOut::default();
        let mut dig = Digest::default();
        let fail = |oracle: &str, step: usize, detail: String| Some((format!("C19/idx/{}", oracle), step, detail));
        macro_rules! drive {
            ($stack:expr, $mk:expr) => {{
                let mut s = $stack;
                let mut n = 0usize;
                for (step, op) in ops.iter().enumerate() {
                    out.steps += 1;
                    let r = catch(|| match op {
                        IOp::Clear | IOp::Letter(9) => {
                            s.clear();
                            n = 0;
                        }
                        IOp::Val(v) => {
                            s.copy($mk(*v));
                            n += 1;
                        }
                        IOp::Letter(l) => {
                            s.copy($mk(*l as usize));
                            n += 1;
                        }
                        IOp::Extend(vs) => {
                            // FlatStack::extend reserves index space up front
                            let mut items = Vec::new();
                            for x in vs.as_slice() {
                                items.push($mk(*x));
                            }
                            n += items.len();
                            s.extend(items);
                        }
                        IOp::Reserve(k) => s.reserve(*k),
                        IOp::Restart => {}
                    });
                    if let Err(p) = r {
                        out.fail = fail("panicked", step, p.short());
                        return out;
                    }
                    let mut pairs = Vec::new();
                    s.heap_size(|u, c| pairs.push((u, c)));
                    let tail2 = &pairs[pairs.len().saturating_sub(2)..];
                    let (u, c): (usize, usize) = (tail2.iter().map(|p| p.0).sum(), tail2.iter().map(|p| p.1).sum());
                    if s.len() != n {
                        out.fail = fail("stack-len", step, format!("len {} expected {n}", s.len()));
                        return out;
                    }
                    if u != 0 || c != 0 {
                        out.fail = fail("stack-index-share-nonzero", step, format!("FlatStack with the optimised index container over a dense-index region reports ({u},{c}) bytes for its own {n} indices"));
                        return out;
                    }
                    out.hit("stack_share_checked");
                    dig.u64(n as u64);
                }
                out.nontrivial = ops.len() >= 3;
            }};
        }
        if self.container == 4 {
            drive!(FlatStack::<ConsecutiveIndexPairs<StringRegion>, IndexOptimized>::default(), |v: usize| "é".repeat(v % 5));
        } else {
            drive!(FlatStack::<ColumnsRegion<MirrorRegion<u8>>, IndexOptimized>::default(), |v: usize| vec![v as u8; v % 4]);
        }
        out.digest = dig.0;
        out
    }
}

fn tail(m: &[usize]) -> Vec<usize> {
    if m.len() <= 8 {
        m.to_vec()
    } else {
        m[m.len() - 8..].to_vec()
    }
}

impl Scenario for IdxScen {
    type Op = IOp;
    fn name(&self) -> String {
        ["Stride", "IndexOptimized", "IndexList<Vec<u32>,Vec<u64>>", "Vec<usize>", "FlatStack<ConsecutiveIndexPairs<StringRegion>,IndexOptimized>", "FlatStack<ColumnsRegion<MirrorRegion<u8>>,IndexOptimized>"][self.container as usize].to_string()
    }
    fn engine(&self) -> &'static str {
        "idx"
    }
    fn stratified(&self, thorough: bool) -> u64 {
        if self.container >= 4 {
            return 0;
        }
        // all letter sequences of length 1..=L
        let l = if thorough { 6 } else { 4 };
        (1..=l).map(|k| NLETTERS.pow(k)).sum()
    }
    fn gen(&self, rng: &mut Rng, thorough: bool, index: u64) -> Vec<IOp> {
        let strat = self.stratified(thorough);
        if index < strat {
            // decode: which length, then base-10 digits
            let mut off = index;
            let mut len = 1u32;
            while off >= NLETTERS.pow(len) {
                off -= NLETTERS.pow(len);
                len += 1;
            }
            let mut ops = Vec::with_capacity(len as usize);
            for _ in 0..len {
                ops.push(IOp::Letter((off % NLETTERS) as u8));
                off /= NLETTERS;
                if self.prop == 16 {
                    ops.push(IOp::Restart);
                }
            }
            return ops;
        }
        let n = match rng.below(8) {
            0..=3 => 2 + rng.below(14),
            4..=6 => 8 + rng.below(120),
            _ => 64 + rng.below(if thorough { 4096 } else { 600 }),
        };
        // swarm: a few modes
        let mode = rng.below(6);
        let stride = *rng.pick(&[0usize, 1, 2, 8, 1 << 16, 1 << 31, 1 << 32, (1 << 62) + 1, usize::MAX / 3]);
        let mut ops = Vec::with_capacity(n);
        let mut k = 0usize;
        for _ in 0..n {
            let op = match mode {
                0 => IOp::Letter(rng.below(10) as u8),
                1 => {
                    // long dense / strided / saturated runs with rare breaks
                    match rng.below(40) {
                        0 => IOp::Letter(3),
                        1 => IOp::Letter(2),
                        2 => IOp::Clear,
                        _ => {
                            let v = stride.wrapping_mul(k);
                            k += 1;
                            IOp::Val(v)
                        }
                    }
                }
                2 => IOp::Val(*rng.pick(&[0usize, 1, 2, 3, u32::MAX as usize - 1, u32::MAX as usize, u32::MAX as usize + 1, 1 << 63, usize::MAX - 1, usize::MAX])),
                3 => IOp::Val(rng.next() as usize >> rng.below(64)),
                4 => match rng.below(10) {
                    0 => IOp::Extend((0..rng.below(6)).map(|_| if rng.coin() { rng.below(4) } else { *rng.pick(&[u32::MAX as usize, u32::MAX as usize + 1, 1usize << 40, usize::MAX, 0, 7]) }).collect()),
                    1 => IOp::Reserve(rng.below(100)),
                    2 => IOp::Clear,
                    _ => IOp::Letter(rng.below(9) as u8),
                },
                _ => {
                    // monotone offsets like a consecutive-pairs region produces
                    k = k.wrapping_add(rng.below(5));
                    IOp::Val(k)
                }
            };
            ops.push(op);
            if self.prop == 16 && rng.chance(1, 6) {
                ops.push(IOp::Restart);
            }
        }
        ops
    }
    fn exec(&self, ops: &[IOp]) -> SOut {
        match self.container {
            0 => self.run::<Stride>(ops),
            1 => self.run::<IndexOptimized>(ops),
            2 => self.run::<IndexList<Vec<u32>, Vec<u64>>>(ops),
            3 => self.run::<Vec<usize>>(ops),
            _ => self.run_stack(ops),
        }
    }
    fn op_json(&self, op: &IOp) -> J {
        match op {
            IOp::Letter(l) => json!({"letter": l}),
            IOp::Val(v) => json!({"val": v}),
            IOp::Clear => json!({"clear": true}),
            IOp::Extend(vs) => json!({"extend": vs}),
            IOp::Reserve(n) => json!({"reserve": n}),
            IOp::Restart => json!({"restart": true}),
        }
    }
    fn op_from_json(&self, j: &J) -> Option<IOp> {
        if let Some(l) = j.get("letter") {
            return Some(IOp::Letter(l.as_u64()? as u8));
        }
        if let Some(v) = j.get("val") {
            return Some(IOp::Val(v.as_u64()? as usize));
        }
        if j.get("clear").is_some() {
            return Some(IOp::Clear);
        }
        if let Some(vs) = j.get("extend") {
            return Some(IOp::Extend(vs.as_array()?.iter().map(|x| x.as_u64().map(|y| y as usize)).collect::<Option<Vec<_>>>()?));
        }
        if j.get("restart").is_some() {
            return Some(IOp::Restart);
        }
        if let Some(n) = j.get("reserve") {
            return Some(IOp::Reserve(n.as_u64()? as usize));
        }
        None
    }
    fn shrink(&self, op: &IOp) -> Vec<IOp> {
        match op {
            IOp::Val(v) if *v > 0 => vec![IOp::Val(0), IOp::Val(*v / 2), IOp::Val(*v - 1)],
            IOp::Extend(vs) if !vs.is_empty() => vec![IOp::Extend(vs[..vs.len() - 1].to_vec()), IOp::Val(vs[0])],
            IOp::Letter(l) if *l > 0 && *l != 9 => vec![IOp::Letter(0)],
            _ => vec![],
        }
    }
}
