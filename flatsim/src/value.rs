//! Model values: the owned types of the regions under test (`R::Owned`), with seeded generation,
//! bit-exact equality (NaN payloads matter), JSON rendering for replay files, and structural
//! shrinking for minimisation.

use crate::rng::Rng;
use serde_json::{json, Value as J};
use std::num::Wrapping;
use std::time::Duration;

/// Per-run generation knobs (part of the swarm configuration; drawn from the run's PRNG).
#[derive(Clone, Debug)]
pub struct Knobs {
    /// 0 ascii, 1 two-byte, 2 three-byte, 3 four-byte, 4 combining sequences, 5 dense multibyte mix
    pub str_class: u8,
    /// 0 = wide domain; n>0 = leaves drawn from a pool of n distinct values (forces repeats at
    /// every depth: collapse hits, dictionary heavy hitters, equal neighbours).
    pub small_domain: u8,
    /// maximum collection / string length (in elements / scalars)
    pub max_len: usize,
    /// 0 small ints, 1 extremes, 2 arithmetic progression, 3 uniform bits
    pub int_mode: u8,
    pub arith_step: u64,
    pub arith_next: u64,
    /// allow non-finite floats (off for serde runs: JSON cannot carry them)
    pub nonfinite: bool,
    /// probability (in 1/16) that a collection is empty
    pub empty_bias: u8,
    /// zero-sized element vectors may be astronomically long (offsets cross 2^32 at no memory cost)
    pub zst_huge: bool,
    /// n>0: every top-level collection / string has exactly n elements (batches of equal-length
    /// values: the fixed-size array implementations become reachable for whole batches)
    pub fixed_len: usize,
}

impl Default for Knobs {
    fn default() -> Self {
        Knobs {
            str_class: 0,
            small_domain: 0,
            max_len: 6,
            int_mode: 0,
            arith_step: 1,
            arith_next: 0,
            nonfinite: true,
            empty_bias: 2,
            zst_huge: false,
            fixed_len: 0,
        }
    }
}

impl Knobs {
    pub fn draw(rng: &mut Rng, max_len: usize) -> Knobs {
        let int_mode = rng.weighted(&[4, 3, 2, 1]) as u8;
        let step_choices: [u64; 8] = [0, 1, 2, 3, 7, 1 << 31, 1 << 32, (1 << 63) - 1];
        Knobs {
            str_class: rng.weighted(&[4, 2, 2, 2, 2, 4]) as u8,
            small_domain: *rng.pick(&[0u8, 0, 0, 2, 3, 5]),
            max_len: 1 + rng.below(max_len.max(1)),
            int_mode,
            arith_step: *rng.pick(&step_choices),
            arith_next: 0,
            nonfinite: true,
            empty_bias: *rng.pick(&[0u8, 1, 2, 4, 8]),
            zst_huge: false,
            fixed_len: 0,
        }
    }
    pub fn to_json(&self) -> J {
        json!({"str_class": self.str_class, "small_domain": self.small_domain, "max_len": self.max_len,
               "int_mode": self.int_mode, "arith_step": self.arith_step, "nonfinite": self.nonfinite,
               "empty_bias": self.empty_bias, "zst_huge": self.zst_huge, "fixed_len": self.fixed_len})
    }
}

pub struct Gen<'r> {
    pub rng: &'r mut Rng,
    pub k: &'r mut Knobs,
    pub depth: usize,
}

impl<'r> Gen<'r> {
    pub fn new(rng: &'r mut Rng, k: &'r mut Knobs) -> Self {
        Gen { rng, k, depth: 0 }
    }
    pub fn len(&mut self) -> usize {
        if self.k.fixed_len > 0 && self.depth <= 1 {
            return self.k.fixed_len;
        }
        if self.rng.chance(self.k.empty_bias as u32, 16) {
            return 0;
        }
        let max = if self.depth >= 2 { self.k.max_len.min(3) } else { self.k.max_len };
        self.rng.small_len(max)
    }
    /// Raw unsigned 64-bit integer according to `int_mode`; callers truncate to their width.
    pub fn int_bits(&mut self, width: u32) -> u128 {
        let mask: u128 = if width >= 128 { u128::MAX } else { (1u128 << width) - 1 };
        if self.k.small_domain > 0 {
            return (self.rng.below(self.k.small_domain as usize) as u128) & mask;
        }
        match self.k.int_mode {
            0 => (self.rng.below(8) as u128) & mask,
            1 => {
                let c: [u128; 14] = [
                    0,
                    1,
                    2,
                    255,
                    256,
                    (1 << 31) - 1,
                    1 << 31,
                    (1 << 32) - 1,
                    1 << 32,
                    (1 << 32) + 1,
                    1 << 63,
                    (1u128 << 64) - 1,
                    (1u128 << 64) - 2,
                    u128::MAX,
                ];
                *self.rng.pick(&c) & mask
            }
            2 => {
                let v = self.k.arith_next;
                self.k.arith_next = self.k.arith_next.wrapping_add(self.k.arith_step);
                // occasionally break or repeat the progression
                match self.rng.below(16) {
                    0 => (v.wrapping_add(1) as u128) & mask,
                    1 => {
                        self.k.arith_next = v; // repeat last next time
                        (v as u128) & mask
                    }
                    _ => (v as u128) & mask,
                }
            }
            _ => {
                let hi = self.rng.next() as u128;
                let lo = self.rng.next() as u128;
                ((hi << 64) | lo) & mask
            }
        }
    }
}

pub trait Value: Clone + Send + Sync + 'static {
    fn gen(g: &mut Gen) -> Self;
    /// Bit-exact structural equality.
    fn beq(&self, o: &Self) -> bool;
    fn to_json(&self) -> J;
    fn from_json(j: &J) -> Option<Self>;
    /// Strictly simpler candidates, most aggressive first.
    fn shrinks(&self) -> Vec<Self>;
    /// A rough size measure used to order shrink candidates / report.
    fn weight(&self) -> usize;
    /// True when the value (at any depth) holds a non-finite float.
    fn has_nonfinite(&self) -> bool {
        false
    }
    /// True when every float inside survives a serde_json text round trip bit-exactly
    /// (finite; the text format cannot carry NaN or infinities).
    fn json_safe(&self) -> bool {
        !self.has_nonfinite()
    }
    /// Equality by the owned type's own `PartialEq` (NaN != NaN), as CollapseSequence sees it.
    fn peq(&self, o: &Self) -> bool {
        self.beq(o)
    }
    /// Number of stored elements / bytes for strings and vectors (None for scalars).
    fn stored_len(&self) -> Option<usize> {
        None
    }
    /// A value of this type with exactly `n` top-level elements (vectors only).
    fn with_len(_g: &mut Gen, _n: usize) -> Option<Self> {
        None
    }
    /// Flattened integer leaves (symbols of Huffman-coded data).
    fn leaves(&self, _out: &mut Vec<u32>) {}
    /// Byte strings at the leaves (inputs of dictionary-coded regions).
    fn byte_strings(&self, _out: &mut Vec<Vec<u8>>) {}
    /// Bytes that any faithful store of this value must keep somewhere (strings, plain elements).
    fn payload_bytes(&self) -> usize {
        0
    }
    fn render(&self) -> String {
        let s = self.to_json().to_string();
        if s.len() > 200 {
            let mut cut = 200;
            while !s.is_char_boundary(cut) {
                cut -= 1;
            }
            format!("{}…", &s[..cut])
        } else {
            s
        }
    }
}

macro_rules! value_uint {
    ($($t:ty),*) => {$(
        impl Value for $t {
            fn gen(g: &mut Gen) -> Self { g.int_bits(<$t>::BITS) as $t }
            fn beq(&self, o: &Self) -> bool { self == o }
            fn to_json(&self) -> J { json!(*self as u64) }
            fn from_json(j: &J) -> Option<Self> { j.as_u64().map(|x| x as $t) }
            fn shrinks(&self) -> Vec<Self> {
                let mut v = Vec::new();
                if *self != 0 { v.push(0); }
                if *self > 1 { v.push(1); v.push(*self / 2); }
                v
            }
            fn weight(&self) -> usize { if *self == 0 { 0 } else { 1 + (<$t>::BITS - self.leading_zeros()) as usize / 8 } }
            fn leaves(&self, out: &mut Vec<u32>) { out.push(*self as u32); }
        }
    )*};
}
value_uint!(u8, u16, u32, u64, usize);

macro_rules! value_sint {
    ($($t:ty),*) => {$(
        impl Value for $t {
            fn gen(g: &mut Gen) -> Self { g.int_bits(<$t>::BITS) as $t }
            fn beq(&self, o: &Self) -> bool { self == o }
            fn to_json(&self) -> J { json!(*self as i64) }
            fn from_json(j: &J) -> Option<Self> { j.as_i64().map(|x| x as $t) }
            fn shrinks(&self) -> Vec<Self> {
                let mut v = Vec::new();
                if *self != 0 { v.push(0); }
                if *self > 1 || *self < -1 { v.push(*self / 2); }
                v
            }
            fn weight(&self) -> usize { if *self == 0 { 0 } else { 1 } }
        }
    )*};
}
value_sint!(i8, i16, i32, i64, isize);

impl Value for u128 {
    fn gen(g: &mut Gen) -> Self {
        g.int_bits(128)
    }
    fn beq(&self, o: &Self) -> bool {
        self == o
    }
    fn to_json(&self) -> J {
        json!(self.to_string())
    }
    fn from_json(j: &J) -> Option<Self> {
        j.as_str()?.parse().ok()
    }
    fn shrinks(&self) -> Vec<Self> {
        if *self != 0 {
            vec![0, *self / 2]
        } else {
            vec![]
        }
    }
    fn weight(&self) -> usize {
        (*self != 0) as usize
    }
}

impl Value for i128 {
    fn gen(g: &mut Gen) -> Self {
        g.int_bits(128) as i128
    }
    fn beq(&self, o: &Self) -> bool {
        self == o
    }
    fn to_json(&self) -> J {
        json!(self.to_string())
    }
    fn from_json(j: &J) -> Option<Self> {
        j.as_str()?.parse().ok()
    }
    fn shrinks(&self) -> Vec<Self> {
        if *self != 0 {
            vec![0, *self / 2]
        } else {
            vec![]
        }
    }
    fn weight(&self) -> usize {
        (*self != 0) as usize
    }
}

impl Value for () {
    fn gen(_g: &mut Gen) -> Self {}
    fn beq(&self, _o: &Self) -> bool {
        true
    }
    fn to_json(&self) -> J {
        J::Null
    }
    fn from_json(j: &J) -> Option<Self> {
        j.is_null().then_some(())
    }
    fn shrinks(&self) -> Vec<Self> {
        vec![]
    }
    fn weight(&self) -> usize {
        0
    }
}

impl Value for bool {
    fn gen(g: &mut Gen) -> Self {
        g.rng.coin()
    }
    fn beq(&self, o: &Self) -> bool {
        self == o
    }
    fn to_json(&self) -> J {
        json!(*self)
    }
    fn from_json(j: &J) -> Option<Self> {
        j.as_bool()
    }
    fn shrinks(&self) -> Vec<Self> {
        if *self {
            vec![false]
        } else {
            vec![]
        }
    }
    fn weight(&self) -> usize {
        *self as usize
    }
}

const CHAR_POOL: [char; 16] = [
    'a', 'b', 'z', '0', ' ', '\0', '\u{7f}', 'é', 'ß', '\u{7ff}', '€', '\u{ffff}', '😀', '\u{10ffff}',
    '\u{301}', '\u{d7ff}',
];

impl Value for char {
    fn gen(g: &mut Gen) -> Self {
        if g.k.small_domain > 0 {
            return CHAR_POOL[g.rng.below(g.k.small_domain as usize) % 16];
        }
        *g.rng.pick(&CHAR_POOL)
    }
    fn beq(&self, o: &Self) -> bool {
        self == o
    }
    fn to_json(&self) -> J {
        json!(*self as u32)
    }
    fn from_json(j: &J) -> Option<Self> {
        char::from_u32(j.as_u64()? as u32)
    }
    fn shrinks(&self) -> Vec<Self> {
        if *self != 'a' {
            vec!['a']
        } else {
            vec![]
        }
    }
    fn weight(&self) -> usize {
        (*self != 'a') as usize
    }
}

const F64_POOL: [u64; 12] = [
    0,
    0x8000_0000_0000_0000, // -0.0
    0x3ff0_0000_0000_0000, // 1.0
    0xbff0_0000_0000_0000, // -1.0
    0x7ff0_0000_0000_0000, // inf
    0xfff0_0000_0000_0000, // -inf
    0x7ff8_0000_0000_0000, // quiet NaN
    0x7ff8_0000_0000_0001, // NaN payload
    0xfff8_0000_dead_beef, // negative NaN payload
    0x7ff0_0000_0000_0001, // signalling NaN
    0x0000_0000_0000_0001, // subnormal
    0x4009_21fb_5444_2d18, // pi
];

impl Value for f64 {
    fn gen(g: &mut Gen) -> Self {
        loop {
            let bits = if g.k.small_domain > 0 {
                // keep 1.0/-0.0/0.0 style values in the small pool, plus NaN when allowed
                let pool: [u64; 5] = [F64_POOL[0], F64_POOL[2], F64_POOL[1], F64_POOL[6], F64_POOL[7]];
                pool[g.rng.below(g.k.small_domain as usize) % 5]
            } else if g.rng.chance(3, 4) {
                *g.rng.pick(&F64_POOL)
            } else {
                g.rng.next()
            };
            let f = f64::from_bits(bits);
            if f.is_finite() || g.k.nonfinite {
                return f;
            }
        }
    }
    fn beq(&self, o: &Self) -> bool {
        self.to_bits() == o.to_bits()
    }
    fn to_json(&self) -> J {
        json!(self.to_bits())
    }
    fn from_json(j: &J) -> Option<Self> {
        j.as_u64().map(f64::from_bits)
    }
    fn shrinks(&self) -> Vec<Self> {
        if self.to_bits() != 0 {
            vec![0.0]
        } else {
            vec![]
        }
    }
    fn weight(&self) -> usize {
        (self.to_bits() != 0) as usize
    }
    fn has_nonfinite(&self) -> bool {
        !self.is_finite()
    }
    fn peq(&self, o: &Self) -> bool {
        self == o
    }
}

impl Value for f32 {
    fn gen(g: &mut Gen) -> Self {
        loop {
            let pool: [u32; 8] = [0, 0x8000_0000, 0x3f80_0000, 0x7f80_0000, 0x7fc0_0000, 0x7fc0_0001, 0xffc0_beef, 1];
            let bits = if g.k.small_domain > 0 {
                pool[g.rng.below(g.k.small_domain as usize) % 8]
            } else if g.rng.chance(3, 4) {
                *g.rng.pick(&pool)
            } else {
                g.rng.next() as u32
            };
            let f = f32::from_bits(bits);
            if f.is_finite() || g.k.nonfinite {
                return f;
            }
        }
    }
    fn beq(&self, o: &Self) -> bool {
        self.to_bits() == o.to_bits()
    }
    fn to_json(&self) -> J {
        json!(self.to_bits())
    }
    fn from_json(j: &J) -> Option<Self> {
        j.as_u64().map(|b| f32::from_bits(b as u32))
    }
    fn shrinks(&self) -> Vec<Self> {
        if self.to_bits() != 0 {
            vec![0.0]
        } else {
            vec![]
        }
    }
    fn weight(&self) -> usize {
        (self.to_bits() != 0) as usize
    }
    fn has_nonfinite(&self) -> bool {
        !self.is_finite()
    }
    fn peq(&self, o: &Self) -> bool {
        self == o
    }
}

impl<T: Value> Value for Wrapping<T> {
    fn gen(g: &mut Gen) -> Self {
        Wrapping(T::gen(g))
    }
    fn beq(&self, o: &Self) -> bool {
        self.0.beq(&o.0)
    }
    fn to_json(&self) -> J {
        self.0.to_json()
    }
    fn from_json(j: &J) -> Option<Self> {
        T::from_json(j).map(Wrapping)
    }
    fn shrinks(&self) -> Vec<Self> {
        self.0.shrinks().into_iter().map(Wrapping).collect()
    }
    fn weight(&self) -> usize {
        self.0.weight()
    }
}

impl Value for Duration {
    fn gen(g: &mut Gen) -> Self {
        let secs = g.int_bits(64) as u64;
        let nanos = (g.int_bits(32) as u32) % 1_000_000_000;
        Duration::new(secs, nanos)
    }
    fn beq(&self, o: &Self) -> bool {
        self == o
    }
    fn to_json(&self) -> J {
        json!([self.as_secs(), self.subsec_nanos()])
    }
    fn from_json(j: &J) -> Option<Self> {
        let a = j.as_array()?;
        Some(Duration::new(a.first()?.as_u64()?, a.get(1)?.as_u64()? as u32))
    }
    fn shrinks(&self) -> Vec<Self> {
        if *self != Duration::ZERO {
            vec![Duration::ZERO]
        } else {
            vec![]
        }
    }
    fn weight(&self) -> usize {
        (*self != Duration::ZERO) as usize
    }
}

/// Scalars per string class. "Dense multibyte" mixes 2-, 3-, 4-byte scalars and combining marks so
/// that almost every wrong byte offset splits a character.
fn scalar(rng: &mut Rng, class: u8) -> char {
    const ASCII: &[char] = &['a', 'b', 'c', 'x', 'y', ' ', '0', '\0', '~', '"', '\\', '\n'];
    const TWO: &[char] = &['é', 'ß', 'ñ', 'Ω', '\u{80}', '\u{7ff}', 'ж'];
    const THREE: &[char] = &['€', '語', '\u{800}', '\u{ffff}', '\u{fffd}', 'ก'];
    const FOUR: &[char] = &['😀', '𝄞', '\u{10000}', '\u{10ffff}', '🦀'];
    const COMB: &[char] = &['e', '\u{301}', 'a', '\u{308}', '\u{200d}', 'o', '\u{323}'];
    match class {
        0 => *rng.pick(ASCII),
        1 => *rng.pick(TWO),
        2 => *rng.pick(THREE),
        3 => *rng.pick(FOUR),
        4 => *rng.pick(COMB),
        _ => match rng.below(5) {
            0 => *rng.pick(TWO),
            1 => *rng.pick(THREE),
            2 => *rng.pick(FOUR),
            3 => *rng.pick(COMB),
            _ => *rng.pick(ASCII),
        },
    }
}

const STR_POOL: [&str; 8] = ["", "a", "é", "ab", "€uro", "a\u{301}", "😀", "abcabc"];

impl Value for String {
    fn gen(g: &mut Gen) -> Self {
        if g.k.small_domain > 0 {
            // pool index 0 is the empty string; honour the str_class by decorating non-empty entries
            let i = g.rng.below(g.k.small_domain as usize + 1) % STR_POOL.len();
            return STR_POOL[i].to_string();
        }
        let n = g.len();
        let mut s = String::new();
        for _ in 0..n {
            s.push(scalar(g.rng, g.k.str_class));
        }
        s
    }
    fn beq(&self, o: &Self) -> bool {
        self == o
    }
    fn to_json(&self) -> J {
        json!(self)
    }
    fn from_json(j: &J) -> Option<Self> {
        j.as_str().map(str::to_string)
    }
    fn shrinks(&self) -> Vec<Self> {
        let mut v = Vec::new();
        if self.is_empty() {
            return v;
        }
        v.push(String::new());
        let chars: Vec<char> = self.chars().collect();
        if chars.len() > 1 {
            v.push(chars[..chars.len() / 2].iter().collect());
            v.push(chars[chars.len() / 2..].iter().collect());
            v.push(chars[1..].iter().collect());
            v.push(chars[..chars.len() - 1].iter().collect());
        }
        if chars.iter().any(|c| *c != 'a') {
            v.push(chars.iter().map(|_| 'a').collect());
        }
        v
    }
    fn weight(&self) -> usize {
        self.len()
    }
    fn stored_len(&self) -> Option<usize> {
        Some(self.len())
    }
    fn byte_strings(&self, out: &mut Vec<Vec<u8>>) {
        out.push(self.as_bytes().to_vec());
    }
    fn payload_bytes(&self) -> usize {
        self.len()
    }
}

/// Length above which a vector of zero-sized elements is handled by length only.
pub const ZST_BIG: usize = 1 << 16;

fn zst_vec<T>(n: usize) -> Vec<T> {
    assert_eq!(std::mem::size_of::<T>(), 0);
    let mut v: Vec<T> = Vec::new();
    // SAFETY: T is zero-sized (only `()` is used), so no memory is read or written and the
    // capacity of the vector is usize::MAX.
    unsafe { v.set_len(n) };
    v
}

impl<T: Value> Value for Vec<T> {
    fn gen(g: &mut Gen) -> Self {
        if std::mem::size_of::<T>() == 0 && g.k.zst_huge && g.rng.chance(1, 5) {
            let n = *g.rng.pick(&[(1usize << 31) - 1, 1 << 31, (1 << 32) - 1, 1 << 32, (1 << 32) + 5, 1 << 33, 3 << 32]);
            return zst_vec(n);
        }
        let n = g.len();
        g.depth += 1;
        let v = (0..n).map(|_| T::gen(g)).collect();
        g.depth -= 1;
        v
    }
    fn with_len(g: &mut Gen, n: usize) -> Option<Self> {
        g.depth += 1;
        let v = (0..n).map(|_| T::gen(g)).collect();
        g.depth -= 1;
        Some(v)
    }
    fn beq(&self, o: &Self) -> bool {
        if std::mem::size_of::<T>() == 0 {
            return self.len() == o.len();
        }
        self.len() == o.len() && self.iter().zip(o).all(|(a, b)| a.beq(b))
    }
    fn to_json(&self) -> J {
        if std::mem::size_of::<T>() == 0 && self.len() > 8 {
            return json!({ "zst_len": self.len() });
        }
        J::Array(self.iter().map(Value::to_json).collect())
    }
    fn from_json(j: &J) -> Option<Self> {
        if let Some(n) = j.get("zst_len") {
            if std::mem::size_of::<T>() != 0 {
                return None;
            }
            return Some(zst_vec(n.as_u64()? as usize));
        }
        j.as_array()?.iter().map(T::from_json).collect()
    }
    fn shrinks(&self) -> Vec<Self> {
        let mut out = Vec::new();
        if self.is_empty() {
            return out;
        }
        if std::mem::size_of::<T>() == 0 && self.len() > 8 {
            out.push(Vec::new());
            out.push(zst_vec(1));
            out.push(zst_vec(self.len() / 2));
            out.push(zst_vec(self.len() - 1));
            return out;
        }
        out.push(Vec::new());
        if self.len() > 1 {
            out.push(self[..self.len() / 2].to_vec());
            out.push(self[self.len() / 2..].to_vec());
        }
        for i in 0..self.len().min(6) {
            let mut c = self.clone();
            c.remove(i);
            out.push(c);
        }
        for i in 0..self.len().min(6) {
            for s in self[i].shrinks().into_iter().take(3) {
                let mut c = self.clone();
                c[i] = s;
                out.push(c);
            }
        }
        out
    }
    fn weight(&self) -> usize {
        if std::mem::size_of::<T>() == 0 {
            return 1 + self.len().min(64);
        }
        1 + self.iter().map(Value::weight).sum::<usize>() + self.len()
    }
    fn has_nonfinite(&self) -> bool {
        if std::mem::size_of::<T>() == 0 {
            return false;
        }
        self.iter().any(Value::has_nonfinite)
    }
    fn json_safe(&self) -> bool {
        if std::mem::size_of::<T>() == 0 {
            // a text format would spell out every unit
            return self.len() <= ZST_BIG;
        }
        self.iter().all(Value::json_safe)
    }
    fn peq(&self, o: &Self) -> bool {
        if std::mem::size_of::<T>() == 0 {
            return self.len() == o.len();
        }
        self.len() == o.len() && self.iter().zip(o).all(|(a, b)| a.peq(b))
    }
    fn stored_len(&self) -> Option<usize> {
        Some(self.len())
    }
    fn leaves(&self, out: &mut Vec<u32>) {
        if std::mem::size_of::<T>() == 0 {
            return;
        }
        for x in self {
            x.leaves(out);
        }
    }
    fn byte_strings(&self, out: &mut Vec<Vec<u8>>) {
        if std::mem::size_of::<T>() == 0 {
            return;
        }
        // A Vec<u8> is itself a byte string; anything else recurses.
        let mut l = Vec::new();
        if std::any::TypeId::of::<T>() == std::any::TypeId::of::<u8>() {
            self.leaves(&mut l);
            out.push(l.into_iter().map(|x| x as u8).collect());
        } else {
            for x in self {
                x.byte_strings(out);
            }
        }
    }
    fn payload_bytes(&self) -> usize {
        if std::mem::size_of::<T>() == 0 {
            return 0;
        }
        self.iter().map(Value::payload_bytes).sum()
    }
}

impl<T: Value> Value for Option<T> {
    fn gen(g: &mut Gen) -> Self {
        if g.rng.chance(1, 3) {
            None
        } else {
            Some(T::gen(g))
        }
    }
    fn beq(&self, o: &Self) -> bool {
        match (self, o) {
            (None, None) => true,
            (Some(a), Some(b)) => a.beq(b),
            _ => false,
        }
    }
    fn to_json(&self) -> J {
        match self {
            None => J::Null,
            Some(x) => json!({ "Some": x.to_json() }),
        }
    }
    fn from_json(j: &J) -> Option<Self> {
        if j.is_null() {
            Some(None)
        } else {
            Some(Some(T::from_json(j.get("Some")?)?))
        }
    }
    fn shrinks(&self) -> Vec<Self> {
        match self {
            None => vec![],
            Some(x) => {
                let mut v = vec![None];
                v.extend(x.shrinks().into_iter().map(Some));
                v
            }
        }
    }
    fn weight(&self) -> usize {
        match self {
            None => 0,
            Some(x) => 1 + x.weight(),
        }
    }
    fn has_nonfinite(&self) -> bool {
        self.as_ref().map(Value::has_nonfinite).unwrap_or(false)
    }
    fn json_safe(&self) -> bool {
        self.as_ref().map(Value::json_safe).unwrap_or(true)
    }
    fn peq(&self, o: &Self) -> bool {
        match (self, o) {
            (None, None) => true,
            (Some(a), Some(b)) => a.peq(b),
            _ => false,
        }
    }
    fn leaves(&self, out: &mut Vec<u32>) {
        if let Some(x) = self {
            x.leaves(out);
        }
    }
    fn byte_strings(&self, out: &mut Vec<Vec<u8>>) {
        if let Some(x) = self {
            x.byte_strings(out);
        }
    }
    fn payload_bytes(&self) -> usize {
        self.as_ref().map(Value::payload_bytes).unwrap_or(0)
    }
}

impl<T: Value, E: Value> Value for Result<T, E> {
    fn gen(g: &mut Gen) -> Self {
        if g.rng.coin() {
            Ok(T::gen(g))
        } else {
            Err(E::gen(g))
        }
    }
    fn beq(&self, o: &Self) -> bool {
        match (self, o) {
            (Ok(a), Ok(b)) => a.beq(b),
            (Err(a), Err(b)) => a.beq(b),
            _ => false,
        }
    }
    fn to_json(&self) -> J {
        match self {
            Ok(x) => json!({ "Ok": x.to_json() }),
            Err(x) => json!({ "Err": x.to_json() }),
        }
    }
    fn from_json(j: &J) -> Option<Self> {
        if let Some(x) = j.get("Ok") {
            Some(Ok(T::from_json(x)?))
        } else {
            Some(Err(E::from_json(j.get("Err")?)?))
        }
    }
    fn shrinks(&self) -> Vec<Self> {
        match self {
            Ok(x) => x.shrinks().into_iter().map(Ok).collect(),
            Err(x) => x.shrinks().into_iter().map(Err).collect(),
        }
    }
    fn weight(&self) -> usize {
        match self {
            Ok(x) => 1 + x.weight(),
            Err(x) => 1 + x.weight(),
        }
    }
    fn has_nonfinite(&self) -> bool {
        match self {
            Ok(x) => x.has_nonfinite(),
            Err(x) => x.has_nonfinite(),
        }
    }
    fn json_safe(&self) -> bool {
        match self {
            Ok(x) => x.json_safe(),
            Err(x) => x.json_safe(),
        }
    }
    fn peq(&self, o: &Self) -> bool {
        match (self, o) {
            (Ok(a), Ok(b)) => a.peq(b),
            (Err(a), Err(b)) => a.peq(b),
            _ => false,
        }
    }
    fn payload_bytes(&self) -> usize {
        match self {
            Ok(x) => x.payload_bytes(),
            Err(x) => x.payload_bytes(),
        }
    }
}

macro_rules! value_tuple {
    ($($n:ident $i:tt),+) => {
        impl<$($n: Value),+> Value for ($($n,)+) {
            fn gen(g: &mut Gen) -> Self { ($($n::gen(g),)+) }
            fn beq(&self, o: &Self) -> bool { true $(&& self.$i.beq(&o.$i))+ }
            fn to_json(&self) -> J { J::Array(vec![$(self.$i.to_json()),+]) }
            fn from_json(j: &J) -> Option<Self> {
                let a = j.as_array()?;
                Some(($($n::from_json(a.get($i)?)?,)+))
            }
            fn shrinks(&self) -> Vec<Self> {
                let mut out = Vec::new();
                $(
                    for s in self.$i.shrinks().into_iter().take(4) {
                        let mut c = self.clone();
                        c.$i = s;
                        out.push(c);
                    }
                )+
                out
            }
            fn weight(&self) -> usize { 0 $(+ self.$i.weight())+ }
            fn has_nonfinite(&self) -> bool { false $(|| self.$i.has_nonfinite())+ }
            fn peq(&self, o: &Self) -> bool { true $(&& self.$i.peq(&o.$i))+ }
            fn json_safe(&self) -> bool { true $(&& self.$i.json_safe())+ }
            fn payload_bytes(&self) -> usize { 0 $(+ self.$i.payload_bytes())+ }
        }
    };
}
value_tuple!(A 0);
value_tuple!(A 0, B 1);
value_tuple!(A 0, B 1, C 2);
value_tuple!(A 0, B 1, C 2, D 3);
value_tuple!(A 0, B 1, C 2, D 3, E 4, F 5, G 6, H 7);
