//! Engine for C17: allocation discipline, decided at the allocator seam.
//!
//! (a) after reserve_items / reserve_regions / merge_regions / merge_capacity, pushing exactly the
//!     announced contents must leave every reported capacity unchanged and, for plain-data
//!     payloads, must not call the allocator at all;
//! (b) without pre-sizing, n plain-data pushes cost O(log n) allocator calls per storage.

use crate::alloc;
use crate::guard::catch;
use crate::rng::{Digest, Rng};
use crate::scen::{SOut, Scenario};
use crate::sut::Sut;
use crate::value::{Gen, Knobs, Value};
use serde_json::{json, Value as J};
use std::marker::PhantomData;

#[derive(Clone, Debug)]
pub enum AOp<V> {
    /// mode 0 reserve_items, 1 reserve_regions, 2 merge, 3 unsized growth
    Cfg { mode: u8, nsrc: u8, rform: usize, n_log: u8, vseed: u64, max_len: usize, pform: usize },
    Prior(V),
    Batch(V),
}

pub struct AllocScen<T: Sut>(pub PhantomData<fn() -> T>);
impl<T: Sut> Clone for AllocScen<T> {
    fn clone(&self) -> Self {
        AllocScen(PhantomData)
    }
}

fn caps_of(h: &[(usize, usize)]) -> Vec<usize> {
    h.iter().map(|p| p.1).collect()
}

impl<T: Sut> Scenario for AllocScen<T>
where
    T::Val: Send,
{
    type Op = AOp<T::Val>;
    fn name(&self) -> String {
        T::name()
    }
    fn engine(&self) -> &'static str {
        "allocs"
    }
    fn gen(&self, rng: &mut Rng, thorough: bool, _index: u64) -> Vec<Self::Op> {
        let caps = T::caps();
        let mut knobs = Knobs::draw(rng, 8);
        knobs.nonfinite = true;
        let mut modes: Vec<u8> = Vec::new();
        if caps.presize {
            if caps.nrforms > 0 {
                modes.push(0);
            }
            if caps.resreg {
                modes.push(1);
            }
            modes.push(2);
            modes.push(2);
        }
        if caps.plain && caps.heap {
            modes.push(3);
        }
        let mode = *rng.pick(&modes);
        let mut ops = Vec::new();
        if mode == 3 {
            let n_log = if thorough { 6 + rng.below(9) as u8 } else { 6 + rng.below(6) as u8 };
            // growth variants: 0 plain pushes; 1 FlatStack::extend in small batches (it reserves
            // its size hint on every call); 2 rows that keep getting wider (columns regions)
            let variant = if caps.is_stack && rng.coin() { 1 } else if T::name().starts_with("ColumnsRegion") && rng.coin() { 2 } else { 0 };
            let n_log = if variant == 2 { n_log.min(9) } else { n_log };
            ops.push(AOp::Cfg { mode, nsrc: variant, rform: 0, n_log, vseed: rng.next(), max_len: 1 + rng.below(4), pform: 0 });
            return ops;
        }
        ops.push(AOp::Cfg { mode, nsrc: 1 + rng.below(3) as u8, rform: rng.below(caps.nrforms.max(1)), n_log: 0, vseed: 0, max_len: 0, pform: if rng.coin() { 0 } else { rng.below(caps.nforms.max(1)) } });
        // batch shapes: empty items, many small, few large, skewed variants come from the knobs
        let np = if rng.coin() { 0 } else { rng.below(12) };
        let nb = match rng.below(4) {
            0 => rng.below(3),
            1 => rng.below(12),
            2 => 8 + rng.below(40),
            _ => rng.below(if thorough { 300 } else { 100 }),
        };
        if rng.chance(1, 4) {
            knobs.max_len = 12 + rng.below(40);
        } else if rng.chance(1, 3) {
            // a batch of equal-length values: reserve_items can go through the fixed-size array impls
            knobs.fixed_len = 1 + rng.below(4);
        }
        for _ in 0..np {
            ops.push(AOp::Prior(T::Val::gen(&mut Gen::new(rng, &mut knobs))));
        }
        for _ in 0..nb {
            ops.push(AOp::Batch(T::Val::gen(&mut Gen::new(rng, &mut knobs))));
        }
        ops
    }

    fn exec(&self, ops: &[Self::Op]) -> SOut {
        let mut out = SOut::default();
        let mut dig = Digest::default();
        let caps = T::caps();
        let fail = |o: &str, d: String| Some((format!("C17/allocs/{o}"), 0usize, d));
        let (mut mode, mut nsrc, mut rform, mut n_log, mut vseed, mut max_len, mut pform) = (2u8, 1u8, 0usize, 6u8, 0u64, 2usize, 0usize);
        let mut prior: Vec<&T::Val> = Vec::new();
        let mut batch: Vec<&T::Val> = Vec::new();
        for op in ops {
            match op {
                AOp::Cfg { mode: m, nsrc: s, rform: r, n_log: n, vseed: v, max_len: ml, pform: pf } => {
                    pform = *pf;
                    mode = *m;
                    nsrc = *s;
                    rform = *r;
                    n_log = *n;
                    vseed = *v;
                    max_len = *ml;
                }
                AOp::Prior(v) => prior.push(v),
                AOp::Batch(v) => batch.push(v),
            }
        }
        out.steps = ops.len();
        alloc::reset();
        alloc::set_knobs(false, false);
        let r = catch(|| -> Option<(String, usize, String)> {
            if mode == 3 {
                if !(caps.plain && caps.heap) {
                    return None;
                }
                // (b) logarithmic growth without pre-sizing
                let mut rng = Rng::new(vseed);
                let mut knobs = Knobs { max_len: max_len.max(1), small_domain: 0, int_mode: 0, ..Knobs::default() };
                let mut t = alloc::with_owner(1, T::new);
                let n = 1usize << n_log.min(15);
                let mut marks: Vec<(usize, u64)> = Vec::new();
                let variant = nsrc;
                // distinct capacities seen for the first reported storage (the column vector of a
                // columns region): amortised growth means O(log n) of them
                let mut first_caps: Vec<usize> = Vec::new();
                let mut i = 0usize;
                while i < n {
                    match variant {
                        1 => {
                            let k = 1 + rng.below(4);
                            let vs: Vec<T::Val> = (0..k).map(|_| T::Val::gen(&mut Gen::new(&mut rng, &mut knobs))).collect();
                            alloc::with_owner(1, || {
                                let _ = t.extend_raw(&vs, k, Some(k));
                            });
                            i += k;
                            out.hit("unsized_extend_batches");
                        }
                        2 => {
                            let v = match T::Val::with_len(&mut Gen::new(&mut rng, &mut knobs), i + 1) {
                                Some(v) => v,
                                None => T::Val::gen(&mut Gen::new(&mut rng, &mut knobs)),
                            };
                            alloc::with_owner(1, || {
                                let _ = t.push(&v, 0);
                            });
                            i += 1;
                            if let Some(h) = t.heap() {
                                if let Some(p) = h.first() {
                                    if first_caps.last() != Some(&p.1) {
                                        first_caps.push(p.1);
                                    }
                                }
                            }
                            out.hit("unsized_widening_rows");
                        }
                        _ => {
                            let v = T::Val::gen(&mut Gen::new(&mut rng, &mut knobs));
                            alloc::with_owner(1, || {
                                let _ = t.push(&v, 0);
                            });
                            i += 1;
                        }
                    }
                    if i >= 64 && (i.is_power_of_two() || (variant == 1 && marks.last().map(|m| i >= 2 * m.0).unwrap_or(i >= 64))) {
                        marks.push((i, alloc::snap(1).calls()));
                    }
                }
                if variant == 2 {
                    let allowed = 2 * (usize::BITS - n.leading_zeros()) as usize + 4;
                    if first_caps.len() > allowed {
                        return fail("growth-not-logarithmic", format!("{n} rows of growing width changed the capacity of the first reported storage {} times (amortised growth allows about {allowed})", first_caps.len()));
                    }
                    alloc::with_owner(1, move || drop(t));
                    return None;
                }
                let pairs = t.heap().map(|h| h.len()).unwrap_or(0).max(1) as u64;
                let total = alloc::snap(1).calls();
                out.hit("log_growth_checked");
                out.hits("unsized_pushes", n as u64);
                dig.u64(total);
                dig.u64(vseed);
                dig.u64(n as u64);
                if total > pairs * 64 + 8 {
                    return fail("per-item-allocation", format!("{n} plain-data pushes made {total} allocator calls for {pairs} reported storages"));
                }
                for w in marks.windows(2) {
                    let d = w[1].1 - w[0].1;
                    if d > pairs * 3 + 4 {
                        return fail("growth-not-logarithmic", format!("going from {} to {} items cost {d} allocator calls for {pairs} reported storages (calls at marks: {:?})", w[0].0, w[1].0, marks));
                    }
                }
                alloc::with_owner(1, move || drop(t));
                return None;
            }
            if !caps.presize {
                return None;
            }
            // (a) pre-sized absorption
            let mut srcs: Vec<T> = Vec::new();
            let mut tgt: T = match mode {
                2 => {
                    let k = nsrc.max(1) as usize;
                    for s in 0..k {
                        srcs.push(alloc::with_owner(2 + s as u32, T::new));
                    }
                    for (i, v) in batch.iter().enumerate() {
                        let s = i % k;
                        alloc::with_owner(2 + s as u32, || {
                            let _ = srcs[s].push(v, 0);
                        });
                    }
                    let refs: Vec<&T> = srcs.iter().collect();
                    out.hit("presize_by_merge");
                    alloc::with_owner(1, || T::merge(&refs))
                }
                _ => {
                    let mut t = alloc::with_owner(1, T::new);
                    for v in &prior {
                        alloc::with_owner(1, || {
                            let _ = t.push(v, 0);
                        });
                    }
                    if !prior.is_empty() {
                        out.hit("presize_populated_target");
                    }
                    t
                }
            };
            match mode {
                0 => {
                    let owned: Vec<T::Val> = batch.iter().map(|v| (*v).clone()).collect();
                    alloc::with_owner(1, || tgt.reserve_items(&owned, rform % caps.nrforms.max(1)));
                    if caps.is_stack {
                        alloc::with_owner(1, || tgt.stack_reserve(batch.len()));
                    }
                    out.hit("presize_by_reserve_items");
                }
                1 => {
                    let mut src = alloc::with_owner(2, T::new);
                    for v in &batch {
                        alloc::with_owner(2, || {
                            let _ = src.push(v, 0);
                        });
                    }
                    let ok = alloc::with_owner(1, || tgt.reserve_regions(&[&src]));
                    if !ok {
                        return None;
                    }
                    if caps.is_stack {
                        // FlatStack::reserve_regions sizes the region only; the index container is
                        // announced through FlatStack::reserve
                        alloc::with_owner(1, || tgt.stack_reserve(batch.len()));
                    }
                    srcs.push(src);
                    out.hit("presize_by_reserve_regions");
                }
                _ => {}
            }
            let before = tgt.heap();
            let s0 = alloc::snap(1);
            let pf = pform % caps.nforms.max(1);
            for v in &batch {
                alloc::with_owner(1, || {
                    let _ = tgt.push(v, pf);
                });
            }
            if pf != 0 {
                out.hit("presized_push_noncanonical_form");
            }
            let s1 = alloc::snap(1);
            let after = tgt.heap();
            out.hit("alloc_free_push_batch");
            out.hits("presized_pushes", batch.len() as u64);
            dig.u64(mode as u64);
            dig.u64(prior.len() as u64);
            for v in &batch {
                dig.str(&v.to_json().to_string());
            }
            let how = ["reserve_items", "reserve_regions", "merge"][mode.min(2) as usize];
            if let (Some(b), Some(a)) = (&before, &after) {
                if caps_of(b) != caps_of(a) {
                    return fail(
                        "capacity-changed",
                        format!("after {how} for {} items ({} prior), pushing exactly those items changed the reported capacities {:?} -> {:?}", batch.len(), prior.len(), caps_of(b), caps_of(a)),
                    );
                }
            }
            // the zero-call rule is checked with the by-reference form only: other forms build their
            // argument (and may drop an owned one) inside the measured region
            if caps.plain && pf == 0 {
                let calls = s1.calls() - s0.calls();
                if calls != 0 {
                    return fail("allocator-called", format!("after {how} for {} plain-data items ({} prior), pushing exactly those items made {calls} allocator calls", batch.len(), prior.len()));
                }
                out.hit("zero_alloc_verified");
            }
            alloc::with_owner(1, move || drop(tgt));
            drop(srcs);
            None
        });
        match r {
            Ok(f) => out.fail = f,
            Err(p) => out.fail = fail("panicked", p.short()),
        }
        out.digest = dig.0;
        out.nontrivial = mode == 3 || batch.len() >= 2;
        out
    }

    fn op_json(&self, op: &Self::Op) -> J {
        match op {
            AOp::Cfg { mode, nsrc, rform, n_log, vseed, max_len, pform } => json!({"cfg": {"mode": mode, "nsrc": nsrc, "rform": rform, "n_log": n_log, "vseed": vseed, "max_len": max_len, "pform": pform}}),
            AOp::Prior(v) => json!({ "prior": v.to_json() }),
            AOp::Batch(v) => json!({ "batch": v.to_json() }),
        }
    }
    fn op_from_json(&self, j: &J) -> Option<Self::Op> {
        if let Some(c) = j.get("cfg") {
            let u = |k: &str| c.get(k).and_then(J::as_u64);
            return Some(AOp::Cfg { mode: u("mode")? as u8, nsrc: u("nsrc")? as u8, rform: u("rform")? as usize, n_log: u("n_log")? as u8, vseed: u("vseed")?, max_len: u("max_len")? as usize, pform: u("pform").unwrap_or(0) as usize });
        }
        if let Some(v) = j.get("prior") {
            return Some(AOp::Prior(T::Val::from_json(v)?));
        }
        Some(AOp::Batch(T::Val::from_json(j.get("batch")?)?))
    }
    fn shrink(&self, op: &Self::Op) -> Vec<Self::Op> {
        match op {
            AOp::Cfg { mode, nsrc, rform, n_log, vseed, max_len, pform } => {
                let mut v = Vec::new();
                if *nsrc > 1 {
                    v.push(AOp::Cfg { mode: *mode, nsrc: 1, rform: *rform, n_log: *n_log, vseed: *vseed, max_len: *max_len, pform: *pform });
                }
                if *n_log > 6 {
                    v.push(AOp::Cfg { mode: *mode, nsrc: *nsrc, rform: *rform, n_log: n_log - 1, vseed: *vseed, max_len: *max_len, pform: *pform });
                }
                if *rform > 0 {
                    v.push(AOp::Cfg { mode: *mode, nsrc: *nsrc, rform: 0, n_log: *n_log, vseed: *vseed, max_len: *max_len, pform: *pform });
                }
                if *pform > 0 {
                    v.push(AOp::Cfg { mode: *mode, nsrc: *nsrc, rform: *rform, n_log: *n_log, vseed: *vseed, max_len: *max_len, pform: 0 });
                }
                v
            }
            AOp::Prior(x) => x.shrinks().into_iter().take(6).map(AOp::Prior).collect(),
            AOp::Batch(x) => x.shrinks().into_iter().take(6).map(AOp::Batch).collect(),
        }
    }
}
