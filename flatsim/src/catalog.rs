//! The typed catalogue of region compositions (DESIGN.md §2.3).
//!
//! Each entry names a concrete region type, its capabilities, and every input form
//! (`impl Push<_>`) through which the simulator can feed it the same logical value.

#![allow(clippy::redundant_clone, clippy::clone_on_copy, clippy::needless_borrow, clippy::useless_conversion)]

use crate::spec;
use crate::usercodec::UserCodec;
use flatcontainer::impls::codec::{CodecRegion, DictionaryCodec};
use flatcontainer::impls::deduplicate::{CollapseSequence, ConsecutiveIndexPairs};
use flatcontainer::impls::huffman_container::HuffmanContainer;
use flatcontainer::impls::index::{IndexList, IndexOptimized};
use flatcontainer::impls::tuple::{TupleABCRegion, TupleABRegion, TupleARegion};
use flatcontainer::{ColumnsRegion, MirrorRegion, OptionRegion, OwnedRegion, PushIter, ResultRegion, SliceRegion, StringRegion};

/// Push an owned array `[T; N]` built from a Vec (N = 0..=4), falling back to the Vec itself.
macro_rules! arr_owned {
    ($p:ident, $v:ident, $T:ty) => {
        match $v.len() {
            0 => {
                let a: [$T; 0] = [];
                $p.push(a)
            }
            1 => $p.push([$v[0].clone()]),
            2 => $p.push([$v[0].clone(), $v[1].clone()]),
            3 => $p.push([$v[0].clone(), $v[1].clone(), $v[2].clone()]),
            4 => $p.push([$v[0].clone(), $v[1].clone(), $v[2].clone(), $v[3].clone()]),
            _ => $p.push($v.clone()),
        }
    };
}
/// Push `&[T; N]`.
macro_rules! arr_ref {
    ($p:ident, $v:ident, $T:ty) => {
        match $v.len() {
            0 => $p.push(<&[$T; 0]>::try_from($v.as_slice()).unwrap()),
            1 => $p.push(<&[$T; 1]>::try_from($v.as_slice()).unwrap()),
            2 => $p.push(<&[$T; 2]>::try_from($v.as_slice()).unwrap()),
            3 => $p.push(<&[$T; 3]>::try_from($v.as_slice()).unwrap()),
            4 => $p.push(<&[$T; 4]>::try_from($v.as_slice()).unwrap()),
            _ => $p.push($v.as_slice()),
        }
    };
}
/// Push `&&[T; N]`.
macro_rules! arr_refref {
    ($p:ident, $v:ident, $T:ty) => {
        match $v.len() {
            0 => $p.push(&<&[$T; 0]>::try_from($v.as_slice()).unwrap()),
            1 => $p.push(&<&[$T; 1]>::try_from($v.as_slice()).unwrap()),
            2 => $p.push(&<&[$T; 2]>::try_from($v.as_slice()).unwrap()),
            3 => $p.push(&<&[$T; 3]>::try_from($v.as_slice()).unwrap()),
            _ => $p.push($v.as_slice()),
        }
    };
}

/// reserve_items over `&[T; N]` when every announced value has the same length N <= 4 (the array
/// impls need one N per call), falling back to the slice form otherwise.
macro_rules! arr_reserve {
    ($rp:ident, $vs:ident, $T:ty) => {{
        let n = $vs.first().map(|v| v.len()).unwrap_or(0);
        if !$vs.iter().all(|v| v.len() == n) || n > 4 {
            $rp.reserve_items($vs.iter().map(|v| v.as_slice()))
        } else {
            match n {
                0 => $rp.reserve_items($vs.iter().map(|v| <&[$T; 0]>::try_from(v.as_slice()).unwrap())),
                1 => $rp.reserve_items($vs.iter().map(|v| <&[$T; 1]>::try_from(v.as_slice()).unwrap())),
                2 => $rp.reserve_items($vs.iter().map(|v| <&[$T; 2]>::try_from(v.as_slice()).unwrap())),
                3 => $rp.reserve_items($vs.iter().map(|v| <&[$T; 3]>::try_from(v.as_slice()).unwrap())),
                _ => $rp.reserve_items($vs.iter().map(|v| <&[$T; 4]>::try_from(v.as_slice()).unwrap())),
            }
        }
    }};
}
/// reserve_items over read items of a scratch region of the same type holding the announced values.
macro_rules! read_reserve {
    ($rp:ident, $vs:ident, $R:ty) => {{
        let mut t = <$R>::default();
        let ix: Vec<_> = $vs.iter().map(|v| flatcontainer::Push::push(&mut t, v)).collect();
        let tr = &t;
        $rp.reserve_items(ix.iter().map(move |i| flatcontainer::Region::index(tr, *i)))
    }};
}

/// reserve_items over `&Option<[T; N]>` when every announced `Some` has the same length N <= 4.
macro_rules! opt_arr_reserve {
    ($rp:ident, $vs:ident, $T:ty) => {{
        let n = $vs.iter().flatten().next().map(|v| v.len()).unwrap_or(0);
        if !$vs.iter().flatten().all(|v| v.len() == n) || n > 4 {
            $rp.reserve_items($vs.iter())
        } else {
            macro_rules! go {
                ($N:literal) => {{
                    let t: Vec<Option<[$T; $N]>> = $vs.iter().map(|o| o.as_ref().map(|v| <[$T; $N]>::try_from(v.as_slice()).unwrap())).collect();
                    $rp.reserve_items(t.iter())
                }};
            }
            match n {
                0 => go!(0),
                1 => go!(1),
                2 => go!(2),
                3 => go!(3),
                _ => go!(4),
            }
        }
    }};
}

/// An owned vector whose allocation is much larger than its contents (a caller may hand over any
/// allocation it likes; the library must not let spare capacity change what is stored).
pub fn roomy<T: Clone>(v: &[T]) -> Vec<T> {
    let mut t = Vec::with_capacity(v.len() + 4096);
    t.extend_from_slice(v);
    t
}

// ---------------------------------------------------------------------------------------------
// Terminals
// ---------------------------------------------------------------------------------------------

macro_rules! mirror_spec {
    ($name:ident, $label:expr, $T:ty) => {
        spec!(
            $name, $label, MirrorRegion<$T>,
            clone: yes, serde: yes, heap: yes, resreg: yes, copy: yes, debug: yes,
            dense: no, collapse_top: no, presize: yes, plain: yes,
            byref(x): x,
            forms(p, v): [p.push(v), p.push(*v), p.push(&v)],
            reserve(rp, vs): [rp.reserve_items(vs.iter()), rp.reserve_items(vs.iter().copied())],
        );
    };
}
mirror_spec!(MirrorUnit, "MirrorRegion<()>", ());
mirror_spec!(MirrorBool, "MirrorRegion<bool>", bool);
mirror_spec!(MirrorChar, "MirrorRegion<char>", char);
mirror_spec!(MirrorU8, "MirrorRegion<u8>", u8);
mirror_spec!(MirrorU64, "MirrorRegion<u64>", u64);
mirror_spec!(MirrorU128, "MirrorRegion<u128>", u128);
mirror_spec!(MirrorUsize, "MirrorRegion<usize>", usize);
mirror_spec!(MirrorI64, "MirrorRegion<i64>", i64);
mirror_spec!(MirrorI128, "MirrorRegion<i128>", i128);
mirror_spec!(MirrorF32, "MirrorRegion<f32>", f32);
mirror_spec!(MirrorF64, "MirrorRegion<f64>", f64);
mirror_spec!(MirrorWrapI8, "MirrorRegion<Wrapping<i8>>", std::num::Wrapping<i8>);
mirror_spec!(MirrorDuration, "MirrorRegion<Duration>", std::time::Duration);

spec!(
    Str, "StringRegion", StringRegion,
    clone: yes, serde: yes, heap: yes, resreg: yes, copy: yes, debug: yes,
    dense: no, collapse_top: no, presize: yes, plain: yes,
    byref(x): x,
    forms(p, v): [p.push(v), p.push(v.clone()), p.push(v.as_str()), p.push(&v.as_str())],
    reserve(rp, vs): [
        rp.reserve_items(vs.iter()),
        rp.reserve_items(vs.iter().map(|s| s.as_str())),
        { let t: Vec<&str> = vs.iter().map(|s| s.as_str()).collect(); rp.reserve_items(t.iter()) },
    ],
);

spec!(
    OwnedU8, "OwnedRegion<u8>", OwnedRegion<u8>,
    clone: yes, serde: yes, heap: yes, resreg: yes, copy: yes, debug: yes,
    dense: no, collapse_top: no, presize: yes, plain: yes,
    byref(x): x,
    forms(p, v): [
        p.push(v),
        p.push(v.clone()),
        p.push(v.as_slice()),
        p.push(&v.as_slice()),
        p.push(PushIter(v.iter().copied())),
        arr_owned!(p, v, u8),
        arr_ref!(p, v, u8),
        arr_refref!(p, v, u8),
        p.push(roomy(v)),
    ],
    reserve(rp, vs): [
        rp.reserve_items(vs.iter()),
        rp.reserve_items(vs.iter().map(|v| v.as_slice())),
        rp.reserve_items(vs.iter().map(|v| PushIter(v.iter().copied()))),
        arr_reserve!(rp, vs, u8),
    ],
);

spec!(
    OwnedUnit, "OwnedRegion<()>", OwnedRegion<()>,
    clone: yes, serde: yes, heap: yes, resreg: yes, copy: yes, debug: no,
    dense: no, collapse_top: no, presize: yes, plain: yes,
    byref(x): x,
    forms(p, v): [p.push(v), p.push(v.clone()), p.push(v.as_slice()), p.push(&v.as_slice())],
    reserve(rp, vs): [rp.reserve_items(vs.iter()), rp.reserve_items(vs.iter().map(|v| v.as_slice()))],
);

spec!(
    OwnedString, "OwnedRegion<String>", OwnedRegion<String>,
    clone: yes, serde: yes, heap: yes, resreg: yes, copy: yes, debug: yes,
    dense: no, collapse_top: no, presize: yes, plain: no,
    byref(x): x,
    forms(p, v): [
        p.push(v),
        p.push(v.clone()),
        p.push(v.as_slice()),
        p.push(PushIter(v.iter().cloned())),
        arr_owned!(p, v, String),
        arr_ref!(p, v, String),
        p.push(roomy(v)),
    ],
    reserve(rp, vs): [rp.reserve_items(vs.iter()), rp.reserve_items(vs.iter().map(|v| v.as_slice())), arr_reserve!(rp, vs, String)],
);

spec!(
    VecU32, "Vec<u32>", Vec<u32>,
    clone: yes, serde: yes, heap: yes, resreg: yes, copy: yes, debug: yes,
    dense: no, collapse_top: no, presize: yes, plain: yes,
    byref(x): x,
    forms(p, v): [p.push(v), p.push(*v), p.push(&v)],
    reserve(rp, vs): [rp.reserve_items(vs.iter()), rp.reserve_items(vs.iter().copied())],
);

spec!(
    VecString, "Vec<String>", Vec<String>,
    clone: yes, serde: yes, heap: yes, resreg: yes, copy: yes, debug: yes,
    dense: no, collapse_top: no, presize: yes, plain: no,
    byref(x): x,
    forms(p, v): [p.push(v), p.push(v.clone()), p.push(&v)],
    reserve(rp, vs): [rp.reserve_items(vs.iter())],
);

// ---------------------------------------------------------------------------------------------
// Fan-out
// ---------------------------------------------------------------------------------------------

spec!(
    OptStr, "OptionRegion<StringRegion>", OptionRegion<StringRegion>,
    clone: yes, serde: yes, heap: yes, resreg: yes, copy: yes, debug: yes,
    dense: no, collapse_top: no, presize: yes, plain: yes,
    byref(x): x,
    forms(p, v): [
        p.push(v),
        p.push(v.clone()),
        p.push(v.as_deref()),
        p.push(v.as_ref()),
        p.push(&v.as_deref()),
    ],
    reserve(rp, vs): [rp.reserve_items(vs.iter()), rp.reserve_items(vs.iter().map(|v| v.as_deref()))],
);

spec!(
    ResStrU8, "ResultRegion<StringRegion,MirrorRegion<u8>>", ResultRegion<StringRegion, MirrorRegion<u8>>,
    clone: yes, serde: yes, heap: yes, resreg: yes, copy: yes, debug: yes,
    dense: no, collapse_top: no, presize: yes, plain: yes,
    byref(x): x,
    forms(p, v): [
        p.push(v),
        p.push(v.clone()),
        p.push(v.as_ref().map(|s| s.as_str()).map_err(|e| *e)),
        p.push(v.as_ref()),
    ],
    reserve(rp, vs): [rp.reserve_items(vs.iter()), rp.reserve_items(vs.iter().map(|v| v.as_ref()))],
);

spec!(
    ResOwnedOwned, "ResultRegion<OwnedRegion<u8>,OwnedRegion<u8>>", ResultRegion<OwnedRegion<u8>, OwnedRegion<u8>>,
    clone: yes, serde: yes, heap: yes, resreg: yes, copy: yes, debug: yes,
    dense: no, collapse_top: no, presize: yes, plain: yes,
    byref(x): x,
    forms(p, v): [
        p.push(v),
        p.push(v.clone()),
        p.push(v.as_ref().map(|s| s.as_slice()).map_err(|e| e.as_slice())),
        p.push(v.as_ref()),
        p.push(v.as_ref().map(|s| roomy(s)).map_err(|e| roomy(e))),
    ],
    reserve(rp, vs): [rp.reserve_items(vs.iter()), rp.reserve_items(vs.iter().map(|v| v.as_ref()))],
);

spec!(
    TupA, "TupleARegion<StringRegion>", TupleARegion<StringRegion>,
    clone: yes, serde: yes, heap: yes, resreg: yes, copy: yes, debug: yes,
    dense: no, collapse_top: no, presize: yes, plain: yes,
    byref(x): x,
    forms(p, v): [p.push(v), p.push(v.clone()), p.push((v.0.as_str(),)), p.push((&v.0,))],
    reserve(rp, vs): [rp.reserve_items(vs.iter()), rp.reserve_items(vs.iter().map(|v| (v.0.as_str(),)))],
);

spec!(
    TupAB, "TupleABRegion<MirrorRegion<u64>,StringRegion>", TupleABRegion<MirrorRegion<u64>, StringRegion>,
    clone: yes, serde: yes, heap: yes, resreg: yes, copy: yes, debug: yes,
    dense: no, collapse_top: no, presize: yes, plain: yes,
    byref(x): x,
    forms(p, v): [p.push(v), p.push(v.clone()), p.push((v.0, v.1.as_str())), p.push((&v.0, &v.1)), p.push(&(&v.0, v.1.as_str()))],
    reserve(rp, vs): [rp.reserve_items(vs.iter()), rp.reserve_items(vs.iter().map(|v| (&v.0, v.1.as_str())))],
);

spec!(
    TupABC, "TupleABCRegion<StringRegion,OptionRegion<MirrorRegion<i64>>,SliceRegion<MirrorRegion<u8>>>",
    TupleABCRegion<StringRegion, OptionRegion<MirrorRegion<i64>>, SliceRegion<MirrorRegion<u8>>>,
    clone: yes, serde: yes, heap: yes, resreg: yes, copy: yes, debug: yes,
    dense: no, collapse_top: no, presize: yes, plain: yes,
    byref(x): x,
    forms(p, v): [p.push(v), p.push(v.clone()), p.push((v.0.as_str(), v.1, v.2.as_slice())), p.push((&v.0, &v.1, &v.2))],
    reserve(rp, vs): [rp.reserve_items(vs.iter()), rp.reserve_items(vs.iter().map(|v| (v.0.as_str(), &v.1, v.2.as_slice())))],
);

// ---------------------------------------------------------------------------------------------
// Slices
// ---------------------------------------------------------------------------------------------

spec!(
    SliceU8, "SliceRegion<MirrorRegion<u8>>", SliceRegion<MirrorRegion<u8>>,
    clone: yes, serde: yes, heap: yes, resreg: yes, copy: yes, debug: yes,
    dense: no, collapse_top: no, presize: yes, plain: yes,
    byref(x): x,
    forms(p, v): [
        p.push(v),
        p.push(v.clone()),
        p.push(v.as_slice()),
        p.push(&v),
        p.push(v.iter().collect::<Vec<&u8>>()),
        arr_owned!(p, v, u8),
        arr_ref!(p, v, u8),
        arr_refref!(p, v, u8),
    ],
    reserve(rp, vs): [
        rp.reserve_items(vs.iter()),
        rp.reserve_items(vs.iter().map(|v| v.as_slice())),
        arr_reserve!(rp, vs, u8),
        read_reserve!(rp, vs, SliceRegion<MirrorRegion<u8>>),
    ],
);

spec!(
    SliceStr, "SliceRegion<StringRegion>", SliceRegion<StringRegion>,
    clone: yes, serde: yes, heap: yes, resreg: yes, copy: yes, debug: yes,
    dense: no, collapse_top: no, presize: yes, plain: yes,
    byref(x): x,
    forms(p, v): [
        p.push(v),
        p.push(v.clone()),
        p.push(v.as_slice()),
        p.push(&v),
        p.push(v.iter().map(|s| s.as_str()).collect::<Vec<&str>>()),
        { let t: Vec<&str> = v.iter().map(|s| s.as_str()).collect(); p.push(t.as_slice()) },
        arr_owned!(p, v, String),
        arr_ref!(p, v, String),
    ],
    reserve(rp, vs): [
        rp.reserve_items(vs.iter()),
        rp.reserve_items(vs.iter().map(|v| v.as_slice())),
        arr_reserve!(rp, vs, String),
        read_reserve!(rp, vs, SliceRegion<StringRegion>),
    ],
);

spec!(
    SliceSliceStr, "SliceRegion<SliceRegion<StringRegion>>", SliceRegion<SliceRegion<StringRegion>>,
    clone: yes, serde: yes, heap: yes, resreg: yes, copy: yes, debug: yes,
    dense: no, collapse_top: no, presize: yes, plain: yes,
    byref(x): x,
    forms(p, v): [
        p.push(v),
        p.push(v.clone()),
        p.push(v.as_slice()),
        p.push(v.iter().map(|w| w.iter().map(|s| s.as_str()).collect::<Vec<&str>>()).collect::<Vec<Vec<&str>>>()),
        p.push(v.iter().collect::<Vec<&Vec<String>>>()),
    ],
    reserve(rp, vs): [rp.reserve_items(vs.iter()), rp.reserve_items(vs.iter().map(|v| v.as_slice()))],
);

spec!(
    SliceUsizeOpt, "SliceRegion<MirrorRegion<usize>,IndexOptimized>", SliceRegion<MirrorRegion<usize>, IndexOptimized>,
    clone: yes, serde: yes, heap: yes, resreg: yes, copy: yes, debug: yes,
    dense: no, collapse_top: no, presize: no, plain: yes,
    byref(x): x,
    forms(p, v): [p.push(v), p.push(v.clone()), p.push(v.as_slice()), arr_owned!(p, v, usize), arr_ref!(p, v, usize)],
    reserve(rp, vs): [rp.reserve_items(vs.iter()), rp.reserve_items(vs.iter().map(|v| v.as_slice()))],
);

spec!(
    SliceUsizeList, "SliceRegion<MirrorRegion<usize>,IndexList<Vec<u32>,Vec<u64>>>", SliceRegion<MirrorRegion<usize>, IndexList<Vec<u32>, Vec<u64>>>,
    clone: yes, serde: yes, heap: yes, resreg: yes, copy: yes, debug: yes,
    dense: no, collapse_top: no, presize: no, plain: yes,
    byref(x): x,
    forms(p, v): [p.push(v), p.push(v.clone()), p.push(v.as_slice()), arr_owned!(p, v, usize)],
    reserve(rp, vs): [rp.reserve_items(vs.iter()), rp.reserve_items(vs.iter().map(|v| v.as_slice()))],
);

spec!(
    SlicePairsStrOpt, "SliceRegion<ConsecutiveIndexPairs<StringRegion>,IndexOptimized>",
    SliceRegion<ConsecutiveIndexPairs<StringRegion>, IndexOptimized>,
    clone: yes, serde: yes, heap: yes, resreg: yes, copy: yes, debug: yes,
    dense: no, collapse_top: no, presize: no, plain: yes,
    byref(x): x,
    forms(p, v): [
        p.push(v),
        p.push(v.clone()),
        p.push(v.as_slice()),
        p.push(v.iter().map(|s| s.as_str()).collect::<Vec<&str>>()),
        arr_owned!(p, v, String),
    ],
    reserve(rp, vs): [rp.reserve_items(vs.iter()), rp.reserve_items(vs.iter().map(|v| v.as_slice()))],
);

spec!(
    SliceCollapsePairsStrOpt, "SliceRegion<CollapseSequence<ConsecutiveIndexPairs<StringRegion>>,IndexOptimized>",
    SliceRegion<CollapseSequence<ConsecutiveIndexPairs<StringRegion>>, IndexOptimized>,
    clone: yes, serde: yes, heap: yes, resreg: yes, copy: yes, debug: yes,
    dense: no, collapse_top: no, presize: no, plain: yes,
    byref(x): x,
    forms(p, v): [
        p.push(v),
        p.push(v.clone()),
        p.push(v.as_slice()),
        p.push(v.iter().map(|s| s.as_str()).collect::<Vec<&str>>()),
    ],
    reserve(rp, vs): [],
);

spec!(
    SliceTupAB, "SliceRegion<TupleABRegion<MirrorRegion<u64>,StringRegion>>", SliceRegion<TupleABRegion<MirrorRegion<u64>, StringRegion>>,
    clone: yes, serde: yes, heap: yes, resreg: yes, copy: yes, debug: yes,
    dense: no, collapse_top: no, presize: yes, plain: yes,
    byref(x): x,
    forms(p, v): [
        p.push(v),
        p.push(v.clone()),
        p.push(v.as_slice()),
        p.push(v.iter().map(|t| (t.0, t.1.as_str())).collect::<Vec<(u64, &str)>>()),
    ],
    reserve(rp, vs): [rp.reserve_items(vs.iter()), rp.reserve_items(vs.iter().map(|v| v.as_slice()))],
);

// ---------------------------------------------------------------------------------------------
// Wrappers
// ---------------------------------------------------------------------------------------------

spec!(
    CollapseStr, "CollapseSequence<StringRegion>", CollapseSequence<StringRegion>,
    clone: yes, serde: yes, heap: yes, resreg: yes, copy: yes, debug: yes,
    dense: no, collapse_top: yes, presize: no, plain: yes,
    byref(x): x,
    forms(p, v): [p.push(v), p.push(v.clone()), p.push(v.as_str())],
    reserve(rp, vs): [],
);

spec!(
    CollapseOwnedF64, "CollapseSequence<OwnedRegion<f64>>", CollapseSequence<OwnedRegion<f64>>,
    clone: yes, serde: yes, heap: yes, resreg: yes, copy: yes, debug: yes,
    dense: no, collapse_top: yes, presize: no, plain: yes,
    byref(x): x,
    forms(p, v): [p.push(v), p.push(v.clone()), p.push(v.as_slice())],
    reserve(rp, vs): [],
);

spec!(
    CollapsePairsStr, "CollapseSequence<ConsecutiveIndexPairs<StringRegion>>", CollapseSequence<ConsecutiveIndexPairs<StringRegion>>,
    clone: yes, serde: yes, heap: yes, resreg: yes, copy: yes, debug: yes,
    dense: no, collapse_top: yes, presize: no, plain: yes,
    byref(x): x,
    forms(p, v): [p.push(v), p.push(v.clone()), p.push(v.as_str())],
    reserve(rp, vs): [],
);

spec!(
    PairsOwnedU8, "ConsecutiveIndexPairs<OwnedRegion<u8>>", ConsecutiveIndexPairs<OwnedRegion<u8>>,
    clone: yes, serde: yes, heap: yes, resreg: yes, copy: yes, debug: yes,
    dense: yes, collapse_top: no, presize: no, plain: yes,
    byref(x): x,
    forms(p, v): [
        p.push(v),
        p.push(v.clone()),
        p.push(v.as_slice()),
        p.push(&v.as_slice()),
        p.push(PushIter(v.iter().copied())),
        arr_owned!(p, v, u8),
        arr_ref!(p, v, u8),
        p.push(roomy(v)),
    ],
    reserve(rp, vs): [rp.reserve_items(vs.iter()), rp.reserve_items(vs.iter().map(|v| v.as_slice()))],
);

spec!(
    PairsStrVec, "ConsecutiveIndexPairs<StringRegion,Vec<usize>>", ConsecutiveIndexPairs<StringRegion, Vec<usize>>,
    clone: yes, serde: yes, heap: yes, resreg: yes, copy: yes, debug: yes,
    dense: yes, collapse_top: no, presize: no, plain: yes,
    byref(x): x,
    forms(p, v): [p.push(v), p.push(v.clone()), p.push(v.as_str()), p.push(&v.as_str())],
    reserve(rp, vs): [rp.reserve_items(vs.iter()), rp.reserve_items(vs.iter().map(|s| s.as_str()))],
);

spec!(
    PairsStrOpt, "ConsecutiveIndexPairs<StringRegion>", ConsecutiveIndexPairs<StringRegion>,
    clone: yes, serde: yes, heap: yes, resreg: yes, copy: yes, debug: yes,
    dense: yes, collapse_top: no, presize: no, plain: yes,
    byref(x): x,
    forms(p, v): [p.push(v), p.push(v.clone()), p.push(v.as_str()), p.push(&v.as_str())],
    reserve(rp, vs): [rp.reserve_items(vs.iter()), rp.reserve_items(vs.iter().map(|s| s.as_str()))],
);

spec!(
    PairsUnitOpt, "ConsecutiveIndexPairs<OwnedRegion<()>,IndexOptimized>", ConsecutiveIndexPairs<OwnedRegion<()>, IndexOptimized>,
    clone: yes, serde: yes, heap: yes, resreg: yes, copy: yes, debug: no,
    dense: yes, collapse_top: no, presize: no, plain: yes,
    byref(x): x,
    forms(p, v): [p.push(v), p.push(v.clone()), p.push(v.as_slice())],
    reserve(rp, vs): [rp.reserve_items(vs.iter())],
);

spec!(
    PairsUnitList, "ConsecutiveIndexPairs<OwnedRegion<()>,IndexList<Vec<u32>,Vec<u64>>>", ConsecutiveIndexPairs<OwnedRegion<()>, IndexList<Vec<u32>, Vec<u64>>>,
    clone: yes, serde: yes, heap: yes, resreg: yes, copy: yes, debug: no,
    dense: yes, collapse_top: no, presize: no, plain: yes,
    byref(x): x,
    forms(p, v): [p.push(v), p.push(v.clone()), p.push(v.as_slice())],
    reserve(rp, vs): [rp.reserve_items(vs.iter())],
);

spec!(
    PairsSliceStr, "ConsecutiveIndexPairs<SliceRegion<StringRegion>>", ConsecutiveIndexPairs<SliceRegion<StringRegion>>,
    clone: yes, serde: yes, heap: yes, resreg: yes, copy: yes, debug: yes,
    dense: yes, collapse_top: no, presize: no, plain: yes,
    byref(x): x,
    forms(p, v): [p.push(v), p.push(v.clone()), p.push(v.as_slice()), p.push(v.iter().map(|s| s.as_str()).collect::<Vec<&str>>())],
    reserve(rp, vs): [rp.reserve_items(vs.iter())],
);

// ---------------------------------------------------------------------------------------------
// Columns
// ---------------------------------------------------------------------------------------------

spec!(
    ColsU8, "ColumnsRegion<MirrorRegion<u8>>", ColumnsRegion<MirrorRegion<u8>>,
    clone: yes, serde: yes, heap: yes, resreg: yes, copy: yes, debug: yes,
    dense: yes, collapse_top: no, presize: no, plain: yes,
    byref(x): x,
    forms(p, v): [
        p.push(v),
        p.push(v.clone()),
        p.push(v.as_slice()),
        p.push(PushIter(v.iter())),
        p.push(PushIter(v.iter().copied())),
        arr_owned!(p, v, u8),
        arr_ref!(p, v, u8),
        // a row handed over as the read item of a slice region (region-backed, then owned-borrowed)
        { let mut t = <SliceRegion<MirrorRegion<u8>>>::default(); let i = flatcontainer::Push::push(&mut t, v); p.push(PushIter(flatcontainer::Region::index(&t, i))) },
        { let b: <SliceRegion<MirrorRegion<u8>> as flatcontainer::Region>::ReadItem<'_> = flatcontainer::IntoOwned::borrow_as(v); p.push(PushIter(b)) },
    ],
    reserve(rp, vs): [],
);

spec!(
    ColsOwnedU8, "ColumnsRegion<OwnedRegion<u8>>", ColumnsRegion<OwnedRegion<u8>>,
    clone: yes, serde: yes, heap: yes, resreg: yes, copy: yes, debug: yes,
    dense: yes, collapse_top: no, presize: no, plain: yes,
    byref(x): x,
    forms(p, v): [
        p.push(v),
        p.push(v.clone()),
        p.push(v.as_slice()),
        p.push(PushIter(v.iter())),
        p.push(v.iter().map(|c| c.as_slice()).collect::<Vec<&[u8]>>()),
        p.push(v.iter().map(|c| roomy(c)).collect::<Vec<Vec<u8>>>()),
    ],
    reserve(rp, vs): [],
);

spec!(
    ColsStrVec, "ColumnsRegion<StringRegion,Vec<usize>>", ColumnsRegion<StringRegion, Vec<usize>>,
    clone: yes, serde: yes, heap: yes, resreg: yes, copy: yes, debug: yes,
    dense: yes, collapse_top: no, presize: no, plain: yes,
    byref(x): x,
    forms(p, v): [
        p.push(v),
        p.push(v.clone()),
        p.push(v.as_slice()),
        p.push(PushIter(v.iter())),
        p.push(v.iter().map(|s| s.as_str()).collect::<Vec<&str>>()),
        p.push(PushIter(v.iter().map(|s| s.as_str()))),
        { let mut t = <SliceRegion<StringRegion>>::default(); let i = flatcontainer::Push::push(&mut t, v); p.push(PushIter(flatcontainer::Region::index(&t, i))) },
        arr_owned!(p, v, String),
        arr_ref!(p, v, String),
        // a row read from a columns region with a *different* offset container (ReadColumns does not name it)
        { let mut t = <ColumnsRegion<StringRegion>>::default(); let i = flatcontainer::Push::push(&mut t, v); p.push(flatcontainer::Region::index(&t, i)) },
        { let mut t = <ColumnsRegion<StringRegion>>::default(); let i = flatcontainer::Push::push(&mut t, v); p.push(PushIter(flatcontainer::Region::index(&t, i).iter())) },
    ],
    reserve(rp, vs): [],
);

spec!(
    ColsPairsStr, "ColumnsRegion<ConsecutiveIndexPairs<StringRegion>>", ColumnsRegion<ConsecutiveIndexPairs<StringRegion>>,
    clone: yes, serde: yes, heap: yes, resreg: yes, copy: yes, debug: yes,
    dense: yes, collapse_top: no, presize: no, plain: yes,
    byref(x): x,
    forms(p, v): [
        p.push(v),
        p.push(v.clone()),
        p.push(v.as_slice()),
        p.push(PushIter(v.iter())),
        p.push(v.iter().map(|s| s.as_str()).collect::<Vec<&str>>()),
    ],
    reserve(rp, vs): [],
);

spec!(
    ColsCollapsePairsStr, "ColumnsRegion<CollapseSequence<ConsecutiveIndexPairs<StringRegion>>>",
    ColumnsRegion<CollapseSequence<ConsecutiveIndexPairs<StringRegion>>>,
    clone: yes, serde: yes, heap: yes, resreg: yes, copy: yes, debug: yes,
    dense: yes, collapse_top: no, presize: no, plain: yes,
    byref(x): x,
    forms(p, v): [
        p.push(v),
        p.push(v.clone()),
        p.push(v.as_slice()),
        p.push(PushIter(v.iter())),
        p.push(v.iter().map(|s| s.as_str()).collect::<Vec<&str>>()),
    ],
    reserve(rp, vs): [],
);

spec!(
    ColsSliceU8, "ColumnsRegion<SliceRegion<MirrorRegion<u8>>>", ColumnsRegion<SliceRegion<MirrorRegion<u8>>>,
    clone: yes, serde: yes, heap: yes, resreg: yes, copy: yes, debug: yes,
    dense: yes, collapse_top: no, presize: no, plain: yes,
    byref(x): x,
    forms(p, v): [p.push(v), p.push(v.clone()), p.push(v.as_slice()), p.push(PushIter(v.iter()))],
    reserve(rp, vs): [],
);

spec!(
    SliceColsU8, "SliceRegion<ColumnsRegion<MirrorRegion<u8>>,IndexOptimized>", SliceRegion<ColumnsRegion<MirrorRegion<u8>>, IndexOptimized>,
    clone: yes, serde: yes, heap: yes, resreg: yes, copy: yes, debug: yes,
    dense: no, collapse_top: no, presize: no, plain: yes,
    byref(x): x,
    forms(p, v): [p.push(v), p.push(v.clone()), p.push(v.as_slice())],
    reserve(rp, vs): [],
);

// ---------------------------------------------------------------------------------------------
// Coded regions
// ---------------------------------------------------------------------------------------------

spec!(
    HuffU8, "HuffmanContainer<u8>", HuffmanContainer<u8>,
    clone: yes, serde: no, heap: no, resreg: no, copy: yes, debug: yes,
    dense: no, collapse_top: no, presize: no, plain: no,
    byref(x): x,
    forms(p, v): [p.push(v), p.push(v.clone()), p.push(v.as_slice()), arr_owned!(p, v, u8), arr_ref!(p, v, u8)],
    reserve(rp, vs): [],
);

spec!(
    HuffU16, "HuffmanContainer<u16>", HuffmanContainer<u16>,
    clone: yes, serde: no, heap: no, resreg: no, copy: yes, debug: yes,
    dense: no, collapse_top: no, presize: no, plain: no,
    byref(x): x,
    forms(p, v): [p.push(v), p.push(v.clone()), p.push(v.as_slice())],
    reserve(rp, vs): [],
);

spec!(
    Codec, "CodecRegion<DictionaryCodec>", CodecRegion<DictionaryCodec>,
    clone: no, serde: no, heap: yes, resreg: yes, copy: yes, debug: yes,
    dense: no, collapse_top: no, presize: no, plain: no,
    byref(x): x.as_slice(),
    forms(p, v): [p.push(v.as_slice())],
    reserve(rp, vs): [],
);

spec!(
    StrCodec, "StringRegion<CodecRegion<DictionaryCodec>>", StringRegion<CodecRegion<DictionaryCodec>>,
    clone: no, serde: no, heap: yes, resreg: yes, copy: yes, debug: yes,
    dense: no, collapse_top: no, presize: no, plain: no,
    byref(x): x,
    forms(p, v): [p.push(v), p.push(v.clone()), p.push(v.as_str())],
    reserve(rp, vs): [],
);

spec!(
    PairsCodec, "ConsecutiveIndexPairs<CodecRegion<DictionaryCodec>>", ConsecutiveIndexPairs<CodecRegion<DictionaryCodec>>,
    clone: no, serde: no, heap: yes, resreg: yes, copy: yes, debug: yes,
    dense: yes, collapse_top: no, presize: no, plain: no,
    byref(x): x.as_slice(),
    forms(p, v): [p.push(v.as_slice())],
    reserve(rp, vs): [],
);

// ---------------------------------------------------------------------------------------------
// Collapse at depth and their wrapper-free twins (C11)
// ---------------------------------------------------------------------------------------------

spec!(
    TupCollapse, "TupleABCRegion<MirrorRegion<u64>,CollapseSequence<OwnedRegion<()>>,CollapseSequence<StringRegion>>",
    TupleABCRegion<MirrorRegion<u64>, CollapseSequence<OwnedRegion<()>>, CollapseSequence<StringRegion>>,
    clone: yes, serde: yes, heap: yes, resreg: yes, copy: yes, debug: no,
    dense: no, collapse_top: no, presize: no, plain: yes,
    byref(x): x,
    forms(p, v): [p.push(v), p.push(v.clone()), p.push((v.0, v.1.as_slice(), v.2.as_str())), p.push((&v.0, &v.1, &v.2))],
    reserve(rp, vs): [],
);

spec!(
    TupPlain, "TupleABCRegion<MirrorRegion<u64>,OwnedRegion<()>,StringRegion>",
    TupleABCRegion<MirrorRegion<u64>, OwnedRegion<()>, StringRegion>,
    clone: yes, serde: yes, heap: yes, resreg: yes, copy: yes, debug: no,
    dense: no, collapse_top: no, presize: yes, plain: yes,
    byref(x): x,
    forms(p, v): [p.push(v), p.push(v.clone()), p.push((v.0, v.1.as_slice(), v.2.as_str())), p.push((&v.0, &v.1, &v.2))],
    reserve(rp, vs): [rp.reserve_items(vs.iter())],
);

spec!(
    ColsCollapseStr, "ColumnsRegion<CollapseSequence<StringRegion>>", ColumnsRegion<CollapseSequence<StringRegion>>,
    clone: yes, serde: yes, heap: yes, resreg: yes, copy: yes, debug: yes,
    dense: yes, collapse_top: no, presize: no, plain: yes,
    byref(x): x,
    forms(p, v): [p.push(v), p.push(v.clone()), p.push(v.as_slice()), p.push(PushIter(v.iter())), p.push(v.iter().map(|s| s.as_str()).collect::<Vec<&str>>())],
    reserve(rp, vs): [],
);

spec!(
    ColsStr, "ColumnsRegion<StringRegion>", ColumnsRegion<StringRegion>,
    clone: yes, serde: yes, heap: yes, resreg: yes, copy: yes, debug: yes,
    dense: yes, collapse_top: no, presize: no, plain: yes,
    byref(x): x,
    forms(p, v): [p.push(v), p.push(v.clone()), p.push(v.as_slice()), p.push(PushIter(v.iter())), p.push(v.iter().map(|s| s.as_str()).collect::<Vec<&str>>())],
    reserve(rp, vs): [],
);

spec!(
    SliceCollapseStr, "SliceRegion<CollapseSequence<StringRegion>>", SliceRegion<CollapseSequence<StringRegion>>,
    clone: yes, serde: yes, heap: yes, resreg: yes, copy: yes, debug: yes,
    dense: no, collapse_top: no, presize: no, plain: yes,
    byref(x): x,
    forms(p, v): [p.push(v), p.push(v.clone()), p.push(v.as_slice()), p.push(v.iter().map(|s| s.as_str()).collect::<Vec<&str>>())],
    reserve(rp, vs): [],
);

// ---------------------------------------------------------------------------------------------
// `Vec<T>` as a region, nested (reserve_items reaches it through filter_map / flatten adaptors)
// ---------------------------------------------------------------------------------------------

spec!(
    OptVecU32, "OptionRegion<Vec<u32>>", OptionRegion<Vec<u32>>,
    clone: yes, serde: yes, heap: yes, resreg: yes, copy: yes, debug: yes,
    dense: no, collapse_top: no, presize: yes, plain: yes,
    byref(x): x,
    forms(p, v): [p.push(v), p.push(*v), p.push(v.as_ref())],
    reserve(rp, vs): [rp.reserve_items(vs.iter()), rp.reserve_items(vs.iter().copied())],
);

spec!(
    ResVecVec, "ResultRegion<Vec<u32>,Vec<String>>", ResultRegion<Vec<u32>, Vec<String>>,
    clone: yes, serde: yes, heap: yes, resreg: yes, copy: yes, debug: yes,
    dense: no, collapse_top: no, presize: yes, plain: no,
    byref(x): x,
    forms(p, v): [p.push(v), p.push(v.clone()), p.push(v.as_ref())],
    reserve(rp, vs): [rp.reserve_items(vs.iter()), rp.reserve_items(vs.iter().map(|v| v.as_ref()))],
);

spec!(
    SliceVecU32, "SliceRegion<Vec<u32>>", SliceRegion<Vec<u32>>,
    clone: yes, serde: yes, heap: yes, resreg: yes, copy: yes, debug: yes,
    dense: no, collapse_top: no, presize: yes, plain: yes,
    byref(x): x,
    forms(p, v): [p.push(v), p.push(v.clone()), p.push(v.as_slice()), arr_owned!(p, v, u32), arr_ref!(p, v, u32)],
    reserve(rp, vs): [rp.reserve_items(vs.iter()), rp.reserve_items(vs.iter().map(|v| v.as_slice()))],
);

// ---------------------------------------------------------------------------------------------
// More terminals, a wide tuple, coded regions at depth, the benchmark composition
// ---------------------------------------------------------------------------------------------

mirror_spec!(MirrorU16, "MirrorRegion<u16>", u16);
mirror_spec!(MirrorU32, "MirrorRegion<u32>", u32);
mirror_spec!(MirrorI8, "MirrorRegion<i8>", i8);
mirror_spec!(MirrorI32, "MirrorRegion<i32>", i32);
mirror_spec!(MirrorIsize, "MirrorRegion<isize>", isize);

spec!(
    Tup8, "TupleABCDEFGHRegion<u8,String,i64,Option<String>,Vec<u8>,f64,bool,char>",
    flatcontainer::impls::tuple::TupleABCDEFGHRegion<MirrorRegion<u8>, StringRegion, MirrorRegion<i64>, OptionRegion<StringRegion>, OwnedRegion<u8>, MirrorRegion<f64>, MirrorRegion<bool>, MirrorRegion<char>>,
    clone: yes, serde: yes, heap: yes, resreg: yes, copy: yes, debug: yes,
    dense: no, collapse_top: no, presize: yes, plain: yes,
    byref(x): x,
    forms(p, v): [
        p.push(v),
        p.push(v.clone()),
        p.push((v.0, v.1.as_str(), v.2, v.3.as_deref(), v.4.as_slice(), v.5, v.6, v.7)),
        p.push((&v.0, &v.1, &v.2, &v.3, &v.4, &v.5, &v.6, &v.7)),
    ],
    reserve(rp, vs): [rp.reserve_items(vs.iter())],
);

spec!(
    SliceHuffU8, "SliceRegion<HuffmanContainer<u8>>", SliceRegion<HuffmanContainer<u8>>,
    clone: yes, serde: no, heap: no, resreg: no, copy: yes, debug: no,
    dense: no, collapse_top: no, presize: no, plain: no,
    byref(x): x,
    forms(p, v): [p.push(v), p.push(v.clone()), p.push(v.as_slice())],
    reserve(rp, vs): [],
);

spec!(
    PairsHuffU8, "ConsecutiveIndexPairs<HuffmanContainer<u8>>", ConsecutiveIndexPairs<HuffmanContainer<u8>>,
    clone: yes, serde: no, heap: no, resreg: no, copy: yes, debug: no,
    dense: yes, collapse_top: no, presize: no, plain: no,
    byref(x): x,
    forms(p, v): [p.push(v), p.push(v.clone()), p.push(v.as_slice())],
    reserve(rp, vs): [],
);

spec!(
    OptSliceStr, "OptionRegion<SliceRegion<StringRegion>>", OptionRegion<SliceRegion<StringRegion>>,
    clone: yes, serde: yes, heap: yes, resreg: yes, copy: yes, debug: yes,
    dense: no, collapse_top: no, presize: yes, plain: yes,
    byref(x): x,
    forms(p, v): [p.push(v), p.push(v.clone()), p.push(v.as_ref()), p.push(v.as_deref())],
    reserve(rp, vs): [rp.reserve_items(vs.iter())],
);

spec!(
    Bench, "SliceRegion<ColumnsRegion<TupleABCRegion<MirrorRegion<u64>,CollapseSequence<OwnedRegion<()>>,CollapseSequence<StringRegion>>>>",
    SliceRegion<ColumnsRegion<TupleABCRegion<MirrorRegion<u64>, CollapseSequence<OwnedRegion<()>>, CollapseSequence<StringRegion>>>>,
    clone: yes, serde: yes, heap: yes, resreg: yes, copy: yes, debug: no,
    dense: no, collapse_top: no, presize: no, plain: yes,
    byref(x): x,
    forms(p, v): [p.push(v), p.push(v.clone()), p.push(v.as_slice())],
    reserve(rp, vs): [],
);

spec!(
    OptSliceU128, "OptionRegion<SliceRegion<MirrorRegion<u128>>>", OptionRegion<SliceRegion<MirrorRegion<u128>>>,
    clone: yes, serde: yes, heap: yes, resreg: yes, copy: yes, debug: yes,
    dense: no, collapse_top: no, presize: yes, plain: yes,
    byref(x): x,
    forms(p, v): [p.push(v), p.push(v.clone()), p.push(v.as_ref()), p.push(v.as_deref())],
    reserve(rp, vs): [rp.reserve_items(vs.iter())],
);

spec!(
    ColsI128, "ColumnsRegion<MirrorRegion<i128>>", ColumnsRegion<MirrorRegion<i128>>,
    clone: yes, serde: yes, heap: yes, resreg: yes, copy: yes, debug: yes,
    dense: yes, collapse_top: no, presize: no, plain: yes,
    byref(x): x,
    forms(p, v): [p.push(v), p.push(v.clone()), p.push(v.as_slice()), p.push(PushIter(v.iter()))],
    reserve(rp, vs): [],
);

spec!(
    ColsCodec, "ColumnsRegion<CodecRegion<DictionaryCodec>>", ColumnsRegion<CodecRegion<DictionaryCodec>>,
    clone: no, serde: no, heap: yes, resreg: yes, copy: yes, debug: yes,
    dense: yes, collapse_top: no, presize: no, plain: no,
    byref(x): x.iter().map(|c| c.as_slice()).collect::<Vec<&[u8]>>(),
    forms(p, v): [p.push(v.iter().map(|c| c.as_slice()).collect::<Vec<&[u8]>>()), p.push(PushIter(v.iter().map(|c| c.as_slice())))],
    reserve(rp, vs): [],
);

// ---------------------------------------------------------------------------------------------
// CodecRegion over a caller-supplied codec (Clone, accepts everything): CodecRegion's own
// clone / clone_from / merge / clear plumbing, which the crate's non-Clone dictionary cannot reach
// ---------------------------------------------------------------------------------------------

spec!(
    UserCodecReg, "CodecRegion<UserCodec>", CodecRegion<UserCodec>,
    clone: yes, serde: no, heap: no, resreg: yes, copy: yes, debug: yes,
    dense: no, collapse_top: no, presize: no, plain: no,
    byref(x): x.as_slice(),
    forms(p, v): [p.push(v.as_slice())],
    reserve(rp, vs): [],
);

spec!(
    StrUserCodec, "StringRegion<CodecRegion<UserCodec>>", StringRegion<CodecRegion<UserCodec>>,
    clone: yes, serde: no, heap: no, resreg: yes, copy: yes, debug: yes,
    dense: no, collapse_top: no, presize: no, plain: no,
    byref(x): x,
    forms(p, v): [p.push(v), p.push(v.clone()), p.push(v.as_str())],
    reserve(rp, vs): [],
);

spec!(
    CollapseUserCodec, "CollapseSequence<CodecRegion<UserCodec,ConsecutiveIndexPairs<OwnedRegion<u8>>>>", CollapseSequence<CodecRegion<UserCodec, ConsecutiveIndexPairs<OwnedRegion<u8>>>>,
    clone: yes, serde: no, heap: no, resreg: yes, copy: yes, debug: yes,
    dense: no, collapse_top: yes, presize: no, plain: no,
    byref(x): x.as_slice(),
    forms(p, v): [p.push(v.as_slice())],
    reserve(rp, vs): [],
);

// rows of zero-sized cells: the per-cell index list is free, the row offsets are not
spec!(
    ColsUnitVec, "ColumnsRegion<MirrorRegion<()>,Vec<usize>>", ColumnsRegion<MirrorRegion<()>, Vec<usize>>,
    clone: yes, serde: yes, heap: yes, resreg: yes, copy: yes, debug: yes,
    dense: yes, collapse_top: no, presize: no, plain: yes,
    byref(x): x,
    forms(p, v): [p.push(v), p.push(v.clone()), p.push(v.as_slice()), p.push(PushIter(v.iter()))],
    reserve(rp, vs): [],
);

// a collapsing region directly over the crate's dictionary-coded region: merge / clear boundaries of
// the wrapper meet an inner region whose state (the dictionary) outlives its contents
spec!(
    CollapseCodec, "CollapseSequence<CodecRegion<DictionaryCodec>>", CollapseSequence<CodecRegion<DictionaryCodec>>,
    clone: no, serde: no, heap: yes, resreg: yes, copy: yes, debug: yes,
    dense: no, collapse_top: yes, presize: no, plain: no,
    byref(x): x.as_slice(),
    forms(p, v): [p.push(v.as_slice())],
    reserve(rp, vs): [],
);

spec!(
    OptOwnedU8, "OptionRegion<OwnedRegion<u8>>", OptionRegion<OwnedRegion<u8>>,
    clone: yes, serde: yes, heap: yes, resreg: yes, copy: yes, debug: yes,
    dense: no, collapse_top: no, presize: yes, plain: yes,
    byref(x): x,
    forms(p, v): [p.push(v), p.push(v.clone()), p.push(v.as_deref())],
    reserve(rp, vs): [rp.reserve_items(vs.iter()), rp.reserve_items(vs.iter().map(|v| v.as_deref())), opt_arr_reserve!(rp, vs, u8)],
);
