//! The history simulator: executes a schedule against a population of live instances of one
//! composition, each paired with a trivial model, checking invariants after every step.

use crate::alloc;
use crate::guard::{catch, PanicRec};
use crate::observe::{Cx, Fail, Kind, Probe, NPROBES};
use crate::ops::{Op, RunCfg};
use crate::rng::Digest;
use crate::sut::{Caps, Sut};
use crate::value::Value;
use std::collections::{BTreeMap, BTreeSet};

#[derive(Clone, Debug)]
pub struct Violation {
    pub prop: u8,
    pub oracle: String,
    pub step: usize,
    pub detail: String,
}

#[derive(Clone, Debug)]
pub enum Outcome {
    Clean,
    Violation(Violation),
    /// an oracle of a *different* property fired; the run is abandoned quietly and counted
    Foreign { oracle: String, step: usize, detail: String },
}

pub struct ExecOut {
    pub outcome: Outcome,
    pub steps_done: usize,
    /// steps that changed some instance's state
    pub state_steps: usize,
    pub digest: u64,
    pub probes: [u64; NPROBES],
    pub kinds: Vec<u8>,
}

const O_CLONED: u8 = 1;
const O_RESTORED: u8 = 2;
const O_CLEARED: u8 = 4;
const O_MERGED: u8 = 8;
const O_RESERVED: u8 = 16;
const O_COPIED: u8 = 32;
const O_FROMITER: u8 = 64;

#[inline]
pub fn pbit(p: u8) -> u32 {
    1u32 << p
}

struct Inst<T: Sut> {
    uid: u32,
    owner: u32,
    sut: T,
    model: Vec<(T::H, T::Val)>,
    group: Option<u32>,
    no_reserve: bool,
    canonical_only: bool,
    origins: u8,
    pushes_since_reset: usize,
    last_push: Option<usize>,
    scratch: Option<T::Val>,
    coded_mode: bool,
    accept_syms: BTreeSet<u32>,
    /// per stream (column of a columns-over-codec region, else stream 0): first bytes observed
    accept_first: BTreeMap<usize, [bool; 256]>,
    stat_syms: BTreeSet<u32>,
    stat_first: BTreeMap<usize, [bool; 256]>,
}

struct Group {
    id: u32,
    prop: u8,
    cmp_idx: bool,
    cmp_used: bool,
    cmp_ser: bool,
}

struct Stop(Outcome);
type R<X> = Result<X, Stop>;

#[derive(Clone, Copy, PartialEq, Eq)]
enum Ctx {
    Just,
    Reread,
    Whole,
    Law,
}

pub struct Sim<'c, T: Sut> {
    cfg: &'c RunCfg,
    caps: Caps,
    coded: u8,
    has_collapse: bool,
    /// the dictionary codec sits under a columns region: one codec, and one contract, per column
    codec_per_column: bool,
    pop: Vec<Inst<T>>,
    groups: Vec<Group>,
    next_uid: u32,
    next_gid: u32,
    step: usize,
    cx: Cx,
    dig: Digest,
    state_steps: usize,
    event: bool,
}

fn used_sum(h: &[(usize, usize)]) -> usize {
    h.iter().map(|p| p.0).sum()
}

impl<'c, T: Sut> Sim<'c, T> {
    fn new(cfg: &'c RunCfg) -> Self {
        let name = T::name();
        let caps = T::caps();
        let coded = if name.contains("Huffman") {
            1
        } else if name.contains("Codec") {
            2
        } else {
            0
        };
        let mut cx = Cx::default();
        cx.oob = cfg.oob;
        cx.borrowed = cfg.borrowed;
        cx.full = cfg.full;
        Sim {
            cfg,
            caps,
            coded,
            has_collapse: name.contains("Collapse"),
            codec_per_column: name.contains("ColumnsRegion<CodecRegion"),
            pop: Vec::new(),
            groups: Vec::new(),
            next_uid: 0,
            next_gid: 0,
            step: 0,
            cx,
            dig: Digest::default(),
            state_steps: 0,
            event: false,
        }
    }

    fn stop(&self, props: u32, oracle: &str, detail: String) -> Stop {
        if props & pbit(self.cfg.prop) != 0 {
            Stop(Outcome::Violation(Violation {
                prop: self.cfg.prop,
                oracle: format!("C{:02}/{}", self.cfg.prop, oracle),
                step: self.step,
                detail,
            }))
        } else {
            Stop(Outcome::Foreign { oracle: oracle.to_string(), step: self.step, detail })
        }
    }

    fn mk_inst(&mut self, sut: T, owner: u32) -> Inst<T> {
        let uid = self.next_uid;
        self.next_uid += 1;
        Inst {
            uid,
            owner,
            sut,
            model: Vec::new(),
            group: None,
            no_reserve: false,
            canonical_only: false,
            origins: 0,
            pushes_since_reset: 0,
            last_push: None,
            scratch: None,
            coded_mode: false,
            accept_syms: BTreeSet::new(),
            accept_first: BTreeMap::new(),
            stat_syms: BTreeSet::new(),
            stat_first: BTreeMap::new(),
        }
    }

    fn fresh_owner(&self) -> u32 {
        self.next_uid + 1
    }

    fn spawn_default(&mut self) -> R<usize> {
        let owner = self.fresh_owner();
        let sut = match catch(|| alloc::with_owner(owner, T::new)) {
            Ok(s) => s,
            Err(p) => return Err(self.stop(pbit(1) | pbit(8) | pbit(10), "default-panicked", p.short())),
        };
        let inst = self.mk_inst(sut, owner);
        self.pop.push(inst);
        Ok(self.pop.len() - 1)
    }

    fn new_group(&mut self, prop: u8, cmp_idx: bool, cmp_used: bool, cmp_ser: bool) -> u32 {
        let id = self.next_gid;
        self.next_gid += 1;
        self.groups.push(Group { id, prop, cmp_idx, cmp_used, cmp_ser });
        id
    }

    fn group(&self, id: u32) -> &Group {
        self.groups.iter().find(|g| g.id == id).expect("group")
    }

    /// Indices of the lockstep peers of instance `i` (itself first if ungrouped; uid order otherwise).
    fn peers(&self, i: usize) -> Vec<usize> {
        match self.pop[i].group {
            None => vec![i],
            Some(g) => {
                let mut v: Vec<usize> = (0..self.pop.len()).filter(|j| self.pop[*j].group == Some(g)).collect();
                v.sort_by_key(|j| self.pop[*j].uid);
                v
            }
        }
    }

    fn room(&self, n: usize) -> bool {
        self.pop.len() + n <= self.cfg.pop_cap.max(2)
    }

    /// Put `a` and `b` in one lockstep group (creating it from `a`'s group or anew).
    fn join(&mut self, a: usize, b: usize, prop: u8, cmp_idx: bool, cmp_used: bool, cmp_ser: bool) {
        let g = match self.pop[a].group {
            Some(g) => g,
            None => {
                let g = self.new_group(prop, cmp_idx, cmp_used, cmp_ser);
                self.pop[a].group = Some(g);
                g
            }
        };
        self.pop[b].group = Some(g);
    }

    fn origin_props(&self, inst: &Inst<T>) -> u32 {
        let mut m = 0;
        if inst.origins & O_CLONED != 0 {
            m |= pbit(9);
        }
        if inst.origins & O_RESTORED != 0 {
            m |= pbit(16);
        }
        if inst.origins & O_CLEARED != 0 {
            m |= pbit(8);
        }
        if inst.origins & (O_MERGED | O_RESERVED) != 0 {
            m |= pbit(10);
        }
        if inst.origins & O_COPIED != 0 {
            m |= pbit(14) | pbit(20);
        }
        if inst.origins & O_FROMITER != 0 {
            m |= pbit(3);
        }
        if self.caps.is_stack {
            m |= pbit(3);
        }
        match self.coded {
            1 => m |= pbit(6),
            2 => m |= pbit(7),
            _ => {}
        }
        if self.has_collapse {
            m |= pbit(11);
        }
        if self.caps.dense {
            m |= pbit(12);
        }
        if let Some(g) = inst.group {
            m |= pbit(self.group(g).prop);
        }
        m
    }

    fn attribute(&self, inst: &Inst<T>, ctx: Ctx, f: &Fail, noncanon: bool) -> u32 {
        let mut m = match ctx {
            Ctx::Just => pbit(1),
            Ctx::Reread => pbit(2),
            Ctx::Whole => pbit(3),
            Ctx::Law => pbit(14),
        };
        match f.kind {
            Kind::Utf8 | Kind::Str => m |= pbit(4),
            Kind::Oob | Kind::Get => m |= pbit(13),
            Kind::Agree => m |= pbit(13) | pbit(1),
            Kind::Law => m |= pbit(14),
            _ => {}
        }
        if f.borrowed {
            m |= pbit(14) | pbit(13);
        }
        if noncanon {
            m |= pbit(20);
        }
        m | self.origin_props(inst)
    }

    fn oracle_name(ctx: Ctx, f: &Fail) -> String {
        let c = match ctx {
            Ctx::Just => "just-pushed",
            Ctx::Reread => "reread",
            Ctx::Whole => "stack",
            Ctx::Law => "law",
        };
        let k = match f.kind {
            Kind::Content => "content",
            Kind::Utf8 => "invalid-utf8",
            Kind::Str => "string-differs",
            Kind::Agree => "accessors-disagree",
            Kind::Get => "get-wrong-element",
            Kind::Oob => "oob-returned",
            Kind::Law => "owned-law",
            Kind::Panic => "read-panicked",
        };
        format!("{c}/{k}{}", if f.borrowed { "/borrowed" } else { "" })
    }

    /// Observe handle `mi` of instance `i`.
    fn check_handle(&mut self, i: usize, mi: usize, ctx: Ctx, noncanon: bool) -> R<()> {
        let n = self.pop[i].model.len();
        self.cx.has_successor = mi + 1 < n;
        let owner = self.pop[i].owner;
        let r = {
            let inst = &self.pop[i];
            let (h, v) = &inst.model[mi];
            let cx = &mut self.cx;
            catch(|| alloc::with_owner(owner, || inst.sut.check(h, v, cx)))
        };
        self.cx.has_successor = false;
        let fail = match r {
            Ok(Ok(())) => return Ok(()),
            Ok(Err(f)) => f,
            Err(p) => Fail::new(Kind::Panic, format!("reading an issued index panicked: {}", p.short())),
        };
        let inst = &self.pop[i];
        let props = self.attribute(inst, ctx, &fail, noncanon);
        let detail = format!(
            "instance #{} ({}), item {} of {} (index {}): {}",
            inst.uid,
            T::name(),
            mi,
            n,
            T::hrepr(&inst.model[mi].0),
            fail.detail
        );
        Err(self.stop(props, &Self::oracle_name(ctx, &fail), detail))
    }

    fn reread_all(&mut self) -> R<()> {
        self.cx.hit(Probe::reread_all);
        let saved_full = self.cx.full;
        let saved_oob = self.cx.oob;
        for i in 0..self.pop.len() {
            let n = self.pop[i].model.len();
            // long models: full battery on a sample, cheap pass on the rest
            // after a bulk push the model holds tens of thousands of handles: rotate through them
            let stride = if n > 2048 { n / 256 } else { 1 };
            for mi in 0..n {
                if stride > 1 && mi % stride != self.step % stride && mi + 8 < n {
                    continue;
                }
                self.cx.full = saved_full && (n <= 24 || mi % 7 == (self.step % 7));
                // out-of-bounds probes cost a caught panic each: probe a rotating sample
                self.cx.oob = saved_oob && (n <= 3 || mi % 4 == (self.step % 4));
                let r = self.check_handle(i, mi, Ctx::Reread, false);
                if r.is_err() {
                    self.cx.full = saved_full;
                    self.cx.oob = saved_oob;
                    return r;
                }
            }
            self.cx.hits(Probe::handles_reread, n as u64);
        }
        self.cx.full = saved_full;
        self.cx.oob = saved_oob;
        Ok(())
    }

    fn whole_all(&mut self) -> R<()> {
        if !self.caps.is_stack {
            return Ok(());
        }
        for i in 0..self.pop.len() {
            let owner = self.pop[i].owner;
            let r = {
                let inst = &self.pop[i];
                let cx = &mut self.cx;
                catch(|| alloc::with_owner(owner, || inst.sut.whole(&inst.model, cx)))
            };
            let fail = match r {
                Ok(Ok(())) => continue,
                Ok(Err(f)) => f,
                Err(p) => Fail::new(Kind::Panic, format!("FlatStack accessor panicked: {}", p.short())),
            };
            let inst = &self.pop[i];
            let props = self.attribute(inst, Ctx::Whole, &fail, false);
            let detail = format!("instance #{} ({}), {} items: {}", inst.uid, T::name(), inst.model.len(), fail.detail);
            return Err(self.stop(props, &Self::oracle_name(Ctx::Whole, &fail), detail));
        }
        Ok(())
    }

    fn heap_of(&mut self, i: usize) -> R<Option<Vec<(usize, usize)>>> {
        if !self.caps.heap {
            return Ok(None);
        }
        let owner = self.pop[i].owner;
        let r = {
            let inst = &self.pop[i];
            catch(|| alloc::with_owner(owner, || inst.sut.heap()))
        };
        match r {
            Ok(h) => {
                if let Some(h) = &h {
                    self.cx.hit(Probe::heap_checked);
                    for (k, (u, c)) in h.iter().enumerate() {
                        if u > c {
                            let d = format!("instance #{}: heap_size pair {k} reports used {u} > capacity {c}", self.pop[i].uid);
                            return Err(self.stop(pbit(18), "heap/used-exceeds-capacity", d));
                        }
                    }
                }
                Ok(h)
            }
            Err(p) => Err(self.stop(pbit(18), "heap/panicked", p.short())),
        }
    }

    /// C18: the sum of used bytes is at least what the model says must be stored.
    fn check_lower_bounds(&mut self) -> R<()> {
        if !self.caps.heap || self.coded != 0 {
            return Ok(());
        }
        for i in 0..self.pop.len() {
            let Some(h) = self.heap_of(i)? else { continue };
            let used = used_sum(&h);
            let vals: Vec<&T::Val> = self.pop[i].model.iter().map(|m| &m.1).collect();
            let lb = T::lower_bound(&vals);
            if used < lb {
                let d = format!(
                    "instance #{} ({}): heap_size reports {used} used bytes in {:?}, but the {} stored items need at least {lb} (payload bytes + index entries, after collapsing)",
                    self.pop[i].uid,
                    T::name(),
                    h,
                    vals.len()
                );
                return Err(self.stop(pbit(18), "heap/used-below-stored", d));
            }
        }
        Ok(())
    }

    fn in_contract(&self, inst: &Inst<T>, v: &T::Val) -> bool {
        if !inst.coded_mode {
            return true;
        }
        match self.coded {
            1 => {
                let mut l = Vec::new();
                v.leaves(&mut l);
                l.iter().all(|s| inst.accept_syms.contains(s))
            }
            2 => {
                let mut bs = Vec::new();
                v.byte_strings(&mut bs);
                let per_col = self.codec_per_column;
                bs.iter().enumerate().all(|(k, b)| {
                    let sid = if per_col { k } else { 0 };
                    // no statistics for a stream: its dictionary is empty and stores everything literally
                    b.is_empty() || inst.accept_first.get(&sid).map(|a| a[b[0] as usize]).unwrap_or(true)
                })
            }
            _ => true,
        }
    }

    fn note_stats(inst: &mut Inst<T>, coded: u8, v: &T::Val) {
        Self::note_stats_cols(inst, coded, v, T::name().contains("ColumnsRegion<CodecRegion"))
    }

    fn note_stats_cols(inst: &mut Inst<T>, coded: u8, v: &T::Val, per_col: bool) {
        match coded {
            1 => {
                let mut l = Vec::new();
                v.leaves(&mut l);
                inst.stat_syms.extend(l);
            }
            2 => {
                let mut bs = Vec::new();
                v.byte_strings(&mut bs);
                for (k, b) in bs.iter().enumerate() {
                    if let Some(f) = b.first() {
                        inst.stat_first.entry(if per_col { k } else { 0 }).or_insert([false; 256])[*f as usize] = true;
                    }
                }
            }
            _ => {}
        }
    }

    fn retire(&mut self, i: usize) {
        let inst = self.pop.remove(i);
        let owner = inst.owner;
        self.cx.hit(Probe::retired);
        // dropping may panic in principle; contain it
        let _ = catch(move || alloc::with_owner(owner, move || drop(inst)));
    }

    // -----------------------------------------------------------------------------------------
    // push (lockstep aware)
    // -----------------------------------------------------------------------------------------

    fn op_push(&mut self, t: usize, v: &T::Val, form: usize) -> R<()> {
        let ti = t % self.pop.len();
        let peers = self.peers(ti);
        let group_prop = self.pop[ti].group.map(|g| self.group(g).prop);
        let need_heap = self.caps.heap && (matches!(self.cfg.prop, 11 | 18 | 20 | 16) || self.caps.collapse_top);
        struct Res {
            i: usize,
            hrepr: Option<String>,
            used_before: Option<usize>,
            used_after: Option<usize>,
            refused: bool,
        }
        let mut results: Vec<Res> = Vec::new();
        for &i in &peers {
            let before = if need_heap { self.heap_of(i)? } else { None };
            let f = if self.pop[i].canonical_only { 0 } else { form % self.caps.nforms.max(1) };
            let contract = self.in_contract(&self.pop[i], v);
            let owner = self.pop[i].owner;
            let r = {
                let inst = &mut self.pop[i];
                catch(|| alloc::with_owner(owner, || inst.sut.push(v, f)))
            };
            self.cx.hit(Probe::push);
            if f != 0 {
                self.cx.hit(Probe::push_form_noncanonical);
            }
            if self.caps.zst_huge {
                if self.pop[i].model.iter().any(|m| m.1.stored_len().map(|l| l > u32::MAX as usize / 2).unwrap_or(false)) {
                    self.cx.hit(Probe::push_after_offsets_exceed_u32);
                }
                if v.stored_len().map(|l| l > u32::MAX as usize / 2).unwrap_or(false) {
                    self.cx.hit(Probe::huge_zst_item_pushed);
                }
            }
            if self.caps.dense && self.pop[i].model.iter().all(|m| m.1.stored_len() < v.stored_len()) && !self.pop[i].model.is_empty() {
                self.cx.hit(Probe::row_longer_than_all_earlier);
            }
            match r {
                Err(p) => {
                    if !contract {
                        // in-contract fault: a legitimate refusal. The instance is retired.
                        self.cx.hit(Probe::refusal_fired);
                        results.push(Res { i, hrepr: None, used_before: None, used_after: None, refused: true });
                        continue;
                    }
                    let inst = &self.pop[i];
                    let mut props = pbit(1) | self.origin_props(inst);
                    if f != 0 {
                        props |= pbit(20);
                    }
                    if p.msg.contains("overflow") {
                        props |= pbit(5);
                    }
                    let d = format!("instance #{} ({}): push(form {f}) of {} panicked: {}", inst.uid, T::name(), v.render(), p.short());
                    return Err(self.stop(props, "push-panicked", d));
                }
                Ok(h) => {
                    if !contract && self.coded == 1 {
                        let d = format!(
                            "instance #{}: push of {} holding a symbol outside the merged statistics returned index {} instead of panicking",
                            self.pop[i].uid,
                            v.render(),
                            T::hrepr(&h)
                        );
                        return Err(self.stop(pbit(6), "huffman/unknown-symbol-accepted", d));
                    }
                    let hr = T::hrepr(&h);
                    let coded = self.coded;
                    let inst = &mut self.pop[i];
                    Self::note_stats(inst, coded, v);
                    // model update + rules that depend on the immediately preceding push
                    let prev = inst.last_push;
                    // A collapsing region keeps the *stored* item when the pushed one is equal
                    // by the owned type's PartialEq (0.0 == -0.0): the model follows suit.
                    let stored = match prev {
                        Some(pi) if self.caps.collapse_top && v.peq(&inst.model[pi].1) => inst.model[pi].1.clone(),
                        _ => v.clone(),
                    };
                    inst.model.push((h, stored));
                    let mi = inst.model.len() - 1;
                    inst.pushes_since_reset += 1;
                    inst.last_push = Some(mi);
                    let after = if need_heap { self.heap_of(i)? } else { None };
                    let ub = before.as_ref().map(|h| used_sum(h));
                    let ua = after.as_ref().map(|h| used_sum(h));
                    // C18: used never decreases on push
                    if let (Some(b), Some(a)) = (ub, ua) {
                        if a < b {
                            let d = format!("instance #{}: Σused fell from {b} to {a} on push of {}", self.pop[i].uid, v.render());
                            return Err(self.stop(pbit(18), "heap/used-decreased-on-push", d));
                        }
                    }
                    // C12: dense indices
                    if self.caps.dense {
                        let k = self.pop[i].pushes_since_reset - 1;
                        self.cx.hit(Probe::dense_index_checked);
                        if hr != k.to_string() {
                            let d = format!("instance #{}: push number {k} since creation/merge/clear returned index {hr}", self.pop[i].uid);
                            return Err(self.stop(pbit(12), "dense/index-not-count", d));
                        }
                    }
                    // C11: top-level collapse rule
                    if self.caps.collapse_top {
                        if let Some(pi) = prev {
                            let inst = &self.pop[i];
                            let (ph, pv) = &inst.model[pi];
                            let equal = v.peq(pv);
                            let same_idx = T::hrepr(ph) == hr;
                            if equal {
                                self.cx.hit(Probe::collapse_hit);
                                if !same_idx {
                                    let d = format!("instance #{}: pushed {} equal to the preceding item but got a new index {hr} (previous {})", inst.uid, v.render(), T::hrepr(ph));
                                    return Err(self.stop(pbit(11), "collapse/equal-not-collapsed", d));
                                }
                                if let (Some(b), Some(a)) = (ub, ua) {
                                    if a != b {
                                        let d = format!("instance #{}: collapsed push of {} changed Σused {b} -> {a}", inst.uid, v.render());
                                        return Err(self.stop(pbit(11), "collapse/stored-on-collapse", d));
                                    }
                                }
                            } else {
                                self.cx.hit(Probe::collapse_miss);
                                if same_idx && v.stored_len().map(|l| l > 0).unwrap_or(false) {
                                    let d = format!("instance #{}: pushed {} which does not equal the preceding item {} but got its index {hr}", inst.uid, v.render(), pv.render());
                                    return Err(self.stop(pbit(11), "collapse/unequal-collapsed", d));
                                }
                                if let (Some(b), Some(a)) = (ub, ua) {
                                    if a == b && v.payload_bytes() > 0 {
                                        let d = format!("instance #{}: pushed {} (not equal to the preceding item) but Σused stayed {b}", inst.uid, v.render());
                                        return Err(self.stop(pbit(11), "collapse/nothing-stored", d));
                                    }
                                }
                            }
                        }
                    }
                    // C01: read-your-write through every accessor
                    self.check_handle(i, mi, Ctx::Just, f != 0)?;
                    // C14: IntoOwned laws with a scratch target reused across the run
                    if self.cfg.laws && !self.caps.is_stack {
                        self.laws(i, mi)?;
                    }
                    results.push(Res { i, hrepr: Some(hr), used_before: ub, used_after: ua, refused: false });
                }
            }
        }
        self.state_steps += 1;
        // lockstep comparisons
        if results.len() > 1 {
            self.cx.hit(Probe::lockstep_step);
            let gp = group_prop.unwrap_or(0);
            let (cmp_idx, cmp_used) = {
                let g = self.group(self.pop[ti].group.unwrap());
                (g.cmp_idx, g.cmp_used)
            };
            let base = &results[0];
            for r in &results[1..] {
                if base.refused != r.refused {
                    // differing acceptance contracts (merged vs default twin): legitimate
                    continue;
                }
                if cmp_idx && base.hrepr != r.hrepr && !(self.pop[base.i].coded_mode != self.pop[r.i].coded_mode) {
                    let d = format!(
                        "lockstep twins diverged on push of {}: instance #{} returned {:?}, instance #{} returned {:?}",
                        v.render(),
                        self.pop[base.i].uid,
                        base.hrepr,
                        self.pop[r.i].uid,
                        r.hrepr
                    );
                    return Err(self.stop(pbit(gp), "lockstep/index-differs", d));
                }
                if cmp_used {
                    if let (Some(b0), Some(a0), Some(b1), Some(a1)) = (base.used_before, base.used_after, r.used_before, r.used_after) {
                        if a0 - b0 != a1 - b1 {
                            let d = format!(
                                "lockstep twins stored different byte counts for {}: instance #{} +{}, instance #{} +{}",
                                v.render(),
                                self.pop[base.i].uid,
                                a0 - b0,
                                self.pop[r.i].uid,
                                a1 - b1
                            );
                            return Err(self.stop(pbit(gp), "lockstep/used-differs", d));
                        }
                    }
                }
            }
        } else if self.pop[ti].group.is_none() {
            self.cx.hit(Probe::diverge_step);
        }
        for r in &results {
            self.dig.str(r.hrepr.as_deref().unwrap_or("refused"));
        }
        // retire refused instances (highest index first)
        let mut dead: Vec<usize> = results.iter().filter(|r| r.refused).map(|r| r.i).collect();
        dead.sort_unstable_by(|a, b| b.cmp(a));
        for i in dead {
            self.retire(i);
        }
        if self.pop.is_empty() {
            self.spawn_default()?;
        }
        Ok(())
    }

    fn laws(&mut self, i: usize, mi: usize) -> R<()> {
        let owner = self.pop[i].owner;
        let mut scratch = self.pop[i].scratch.take();
        if scratch.is_none() {
            scratch = Some(self.pop[i].model[mi].1.clone());
        }
        let mut sc = scratch.unwrap();
        {
            let v = &self.pop[i].model[mi].1;
            match (sc.stored_len(), v.stored_len()) {
                (Some(a), Some(b)) if a > b => self.cx.hit(Probe::scratch_longer),
                (Some(a), Some(b)) if a < b => self.cx.hit(Probe::scratch_shorter),
                _ => {}
            }
        }
        let r = {
            let inst = &self.pop[i];
            let (h, v) = &inst.model[mi];
            let cx = &mut self.cx;
            let scr = &mut sc;
            catch(|| alloc::with_owner(owner, || inst.sut.laws(h, v, scr, cx)))
        };
        self.cx.hit(Probe::laws_checked);
        let fail = match r {
            Ok(Ok(())) => {
                self.pop[i].scratch = Some(sc);
                return Ok(());
            }
            Ok(Err(f)) => f,
            Err(p) => Fail::new(Kind::Law, format!("IntoOwned operation panicked: {}", p.short())),
        };
        let inst = &self.pop[i];
        let props = pbit(14) | self.origin_props(inst) & (pbit(6) | pbit(7));
        let d = format!("instance #{} ({}), item {}: {}", inst.uid, T::name(), mi, fail.detail);
        Err(self.stop(props, "law/into-owned", d))
    }

    // -----------------------------------------------------------------------------------------
    // other operations
    // -----------------------------------------------------------------------------------------

    fn op_clear(&mut self, t: usize, twin: bool) -> R<()> {
        let ti = t % self.pop.len();
        let peers = self.peers(ti);
        for &i in &peers {
            let before = if self.cfg.prop == 18 { self.heap_of(i)? } else { None };
            let lb_before = if self.cfg.prop == 18 && self.coded == 0 {
                let vals: Vec<&T::Val> = self.pop[i].model.iter().map(|m| &m.1).collect();
                T::lower_bound(&vals)
            } else {
                0
            };
            let owner = self.pop[i].owner;
            let nonempty = !self.pop[i].model.is_empty();
            let r = {
                let inst = &mut self.pop[i];
                catch(|| alloc::with_owner(owner, || inst.sut.clear()))
            };
            if let Err(p) = r {
                let d = format!("instance #{}: clear() panicked: {}", self.pop[i].uid, p.short());
                return Err(self.stop(pbit(8), "clear-panicked", d));
            }
            self.cx.hit(Probe::clear);
            if nonempty {
                self.cx.hit(Probe::clear_nonempty);
            }
            if self.pop[i].model.len() >= 65536 {
                self.cx.hit(Probe::clear_after_65536_items);
            }
            let inst = &mut self.pop[i];
            inst.model.clear();
            inst.pushes_since_reset = 0;
            inst.last_push = None;
            inst.origins |= O_CLEARED;
            inst.coded_mode = false;
            inst.stat_syms.clear();
            inst.stat_first.clear();
            if let Some(b) = before {
                if let Some(a) = self.heap_of(i)? {
                    let (cb, ca): (usize, usize) = (b.iter().map(|p| p.1).sum(), a.iter().map(|p| p.1).sum());
                    let shrunk = if a.len() == b.len() { a.iter().zip(&b).any(|(x, y)| x.1 < y.1) } else { ca < cb };
                    if shrunk {
                        let d = format!("instance #{}: a reported capacity shrank on clear: before {:?} after {:?}", self.pop[i].uid, b, a);
                        return Err(self.stop(pbit(18), "heap/capacity-shrank-on-clear", d));
                    }
                    // no pushed payload is accounted any more
                    let (ub, ua) = (used_sum(&b), used_sum(&a));
                    if ua + lb_before > ub {
                        let d = format!("instance #{}: after clear {ua} bytes are still reported used (before: {ub}, of which at least {lb_before} were payload and index entries of the cleared items)", self.pop[i].uid);
                        return Err(self.stop(pbit(18), "heap/payload-accounted-after-clear", d));
                    }
                }
            }
        }
        self.event = true;
        self.state_steps += 1;
        if twin && self.pop[ti].group.is_none() && self.room(1) {
            let ni = self.spawn_default()?;
            self.join(ti, ni, 8, true, false, false);
        }
        Ok(())
    }

    fn copy_contract(dst: &mut Inst<T>, src: &Inst<T>) {
        dst.coded_mode = src.coded_mode;
        dst.accept_syms = src.accept_syms.clone();
        dst.accept_first = src.accept_first.clone();
        dst.stat_syms = src.stat_syms.clone();
        dst.stat_first = src.stat_first.clone();
        dst.pushes_since_reset = src.pushes_since_reset;
        dst.last_push = src.last_push;
        dst.model = src.model.clone();
    }

    fn op_clone(&mut self, t: usize, lockstep: bool) -> R<()> {
        if !self.caps.clone || !self.room(1) {
            return Ok(());
        }
        let ti = t % self.pop.len();
        let owner = self.fresh_owner();
        let r = {
            let inst = &self.pop[ti];
            catch(|| alloc::with_owner(owner, || inst.sut.try_clone()))
        };
        let sut = match r {
            Ok(Some(s)) => s,
            Ok(None) => return Ok(()),
            Err(p) => return Err(self.stop(pbit(9), "clone-panicked", p.short())),
        };
        let mut ni = self.mk_inst(sut, owner);
        Self::copy_contract(&mut ni, &self.pop[ti]);
        ni.origins = self.pop[ti].origins | O_CLONED;
        ni.canonical_only = false;
        self.pop.push(ni);
        let n = self.pop.len() - 1;
        self.cx.hit(Probe::clone_made);
        if lockstep {
            self.join(ti, n, 9, true, false, false);
        }
        self.event = true;
        self.state_steps += 1;
        Ok(())
    }

    fn op_clone_from(&mut self, src: usize, dst: usize, lockstep: bool, third: bool) -> R<()> {
        if !self.caps.clone || self.pop.len() < 2 {
            return Ok(());
        }
        let si = src % self.pop.len();
        let mut di = dst % self.pop.len();
        if di == si {
            di = (si + 1) % self.pop.len();
        }
        let (ls, ld) = (self.pop[si].model.len(), self.pop[di].model.len());
        let owner = self.pop[di].owner;
        let r = {
            // split borrow
            let (a, b) = if si < di {
                let (x, y) = self.pop.split_at_mut(di);
                (&x[si], &mut y[0])
            } else {
                let (x, y) = self.pop.split_at_mut(si);
                (&y[0], &mut x[di])
            };
            catch(|| alloc::with_owner(owner, || b.sut.try_clone_from(&a.sut)))
        };
        match r {
            Ok(true) => {}
            Ok(false) => return Ok(()),
            Err(p) => return Err(self.stop(pbit(9), "clone_from-panicked", p.short())),
        }
        self.cx.hit(Probe::clone_from_made);
        if ld > ls {
            self.cx.hit(Probe::clone_from_onto_longer);
        } else if ld < ls {
            self.cx.hit(Probe::clone_from_onto_shorter);
        }
        // dst becomes a copy of src
        let (origins, snapshot) = {
            let s = &self.pop[si];
            (s.origins | O_CLONED, (s.coded_mode, s.accept_syms.clone(), s.accept_first.clone(), s.stat_syms.clone(), s.stat_first.clone(), s.pushes_since_reset, s.last_push, s.model.clone()))
        };
        {
            let d = &mut self.pop[di];
            d.group = None;
            d.no_reserve = false;
            d.canonical_only = false;
            d.origins = origins;
            d.coded_mode = snapshot.0;
            d.accept_syms = snapshot.1;
            d.accept_first = snapshot.2;
            d.stat_syms = snapshot.3;
            d.stat_first = snapshot.4;
            d.pushes_since_reset = snapshot.5;
            d.last_push = snapshot.6;
            d.model = snapshot.7;
            d.scratch = None;
        }
        if lockstep {
            self.join(si, di, 9, true, false, true);
        }
        self.event = true;
        self.state_steps += 1;
        if third && self.caps.serde && self.pop[si].model.iter().all(|(_, v)| v.json_safe()) {
            // clone_from must produce exactly the same observable result as clone: compare the
            // serialised forms of dst and of a fresh clone of src.
            let owner = self.fresh_owner();
            let r = {
                let s = &self.pop[si];
                let d = &self.pop[di];
                catch(|| alloc::with_owner(owner, || (s.sut.try_clone().and_then(|c| c.ser()), d.sut.ser())))
            };
            if let Ok((Some(Ok(a)), Some(Ok(b)))) = r {
                if a != b {
                    let d = format!("clone_from destination serialises differently from clone(): {} vs {}", crate::trunc(&b, 300), crate::trunc(&a, 300));
                    return Err(self.stop(pbit(9), "clone_from/differs-from-clone", d));
                }
            }
        }
        Ok(())
    }

    fn op_merge(&mut self, srcs: &[usize], twin: bool) -> R<()> {
        if !self.room(1) {
            return Ok(());
        }
        let idxs: Vec<usize> = srcs.iter().map(|s| s % self.pop.len()).collect();
        // Merging lockstep twins must give lockstep twins: when the single source has a lockstep
        // peer, the peer is merged as well and the two results continue in lockstep (this is how a
        // difference in *statistics* between twins - invisible to reads - becomes observable).
        if !twin && idxs.len() == 1 && self.room(2) {
            if let Some(g) = self.pop[idxs[0]].group {
                let peers = self.peers(idxs[0]);
                if peers.len() >= 2 {
                    let (gp, ci, cu, cs) = {
                        let gr = self.group(g);
                        (gr.prop, gr.cmp_idx, gr.cmp_used, gr.cmp_ser)
                    };
                    let a = peers[0];
                    let b = peers[1];
                    self.merge_into_pop(&[a])?;
                    let na = self.pop.len() - 1;
                    self.merge_into_pop(&[b])?;
                    let nb = self.pop.len() - 1;
                    let ng = self.new_group(gp, ci, cu, cs);
                    self.pop[na].group = Some(ng);
                    self.pop[nb].group = Some(ng);
                    self.cx.hit(Probe::merge_of_lockstep_twins);
                    self.event = true;
                    self.state_steps += 1;
                    return Ok(());
                }
            }
        }
        self.merge_into_pop(&idxs)?;
        let n = self.pop.len() - 1;
        self.event = true;
        self.state_steps += 1;
        if twin && self.room(1) {
            let d = self.spawn_default()?;
            // coded regions: indices legitimately differ between a coded and a raw container
            self.join(n, d, 10, self.coded == 0, false, false);
        }
        Ok(())
    }

    /// merge_regions / merge_capacity over the given population indices; the result is appended.
    fn merge_into_pop(&mut self, idxs: &[usize]) -> R<()> {
        let idxs: Vec<usize> = idxs.to_vec();
        let owner = self.fresh_owner();
        let r = {
            let refs: Vec<&T> = idxs.iter().map(|i| &self.pop[*i].sut).collect();
            catch(|| alloc::with_owner(owner, || T::merge(&refs)))
        };
        let sut = match r {
            Ok(s) => s,
            Err(p) => {
                let mut props = pbit(10);
                if self.coded == 1 {
                    props |= pbit(6);
                }
                if self.coded == 2 {
                    props |= pbit(7);
                }
                return Err(self.stop(props, "merge-panicked", format!("merge over {} sources panicked: {}", idxs.len(), p.short())));
            }
        };
        let mut ni = self.mk_inst(sut, owner);
        ni.origins = O_MERGED;
        if self.coded != 0 {
            ni.coded_mode = true;
            for i in &idxs {
                let s = &self.pop[*i];
                ni.accept_syms.extend(s.stat_syms.iter().copied());
                for (sid, seen) in &s.stat_first {
                    let a = ni.accept_first.entry(*sid).or_insert([false; 256]);
                    for k in 0..256 {
                        a[k] |= seen[k];
                    }
                }
            }
        }
        self.pop.push(ni);
        self.cx.hit(Probe::merge_made);
        if idxs.is_empty() {
            self.cx.hit(Probe::merge_zero_sources);
        }
        if idxs.len() >= 2 {
            self.cx.hit(Probe::merge_many_sources);
        }
        Ok(())
    }

    fn op_restart(&mut self, t: usize, lockstep: bool) -> R<()> {
        if !self.caps.serde || !self.room(1) {
            return Ok(());
        }
        let ti = t % self.pop.len();
        if self.pop[ti].model.iter().any(|(_, v)| !v.json_safe()) {
            // JSON cannot carry non-finite floats (format limitation, not a crate property)
            return Ok(());
        }
        let owner = self.pop[ti].owner;
        let text = {
            let inst = &self.pop[ti];
            catch(|| alloc::with_owner(owner, || inst.sut.ser()))
        };
        let text = match text {
            Ok(Some(Ok(s))) => s,
            Ok(Some(Err(e))) => return Err(self.stop(pbit(16), "serde/serialise-failed", e)),
            Ok(None) => return Ok(()),
            Err(p) => return Err(self.stop(pbit(16), "serde/serialise-panicked", p.short())),
        };
        let nowner = self.fresh_owner();
        let r = catch(|| alloc::with_owner(nowner, || T::de(&text)));
        let sut = match r {
            Ok(Some(Ok(s))) => s,
            Ok(Some(Err(e))) => {
                let d = format!("deserialising the crate's own output failed: {e}; text {}", crate::trunc(&text, 300));
                return Err(self.stop(pbit(16), "serde/deserialise-failed", d));
            }
            Ok(None) => return Ok(()),
            Err(p) => return Err(self.stop(pbit(16), "serde/deserialise-panicked", p.short())),
        };
        // re-serialisation must be a fixpoint
        let again = catch(|| alloc::with_owner(nowner, || sut.ser()));
        if let Ok(Some(Ok(a))) = again {
            if a != text {
                let d = format!("restored value serialises differently: {} vs {}", crate::trunc(&a, 300), crate::trunc(&text, 300));
                return Err(self.stop(pbit(16), "serde/reserialise-differs", d));
            }
        }
        let mut ni = self.mk_inst(sut, nowner);
        Self::copy_contract(&mut ni, &self.pop[ti]);
        ni.origins = self.pop[ti].origins | O_RESTORED;
        if !self.pop[ti].model.is_empty() {
            self.cx.hit(Probe::restart_with_history);
        }
        self.pop.push(ni);
        let n = self.pop.len() - 1;
        self.cx.hit(Probe::restart_made);
        if lockstep {
            self.join(ti, n, 16, true, true, true);
        }
        self.event = true;
        self.state_steps += 1;
        Ok(())
    }

    fn op_reserve_items(&mut self, t: usize, vs: &[T::Val], form: usize) -> R<()> {
        if self.caps.nrforms == 0 {
            return Ok(());
        }
        let ti = t % self.pop.len();
        for i in self.peers(ti) {
            if self.pop[i].no_reserve {
                continue;
            }
            let owner = self.pop[i].owner;
            let f = form % self.caps.nrforms;
            let r = {
                let inst = &mut self.pop[i];
                catch(|| alloc::with_owner(owner, || inst.sut.reserve_items(vs, f)))
            };
            if let Err(p) = r {
                let d = format!("instance #{}: reserve_items(form {f}) panicked: {}", self.pop[i].uid, p.short());
                return Err(self.stop(pbit(10) | pbit(2), "reserve_items-panicked", d));
            }
            self.pop[i].origins |= O_RESERVED;
            self.cx.hit(Probe::reserve_items_call);
        }
        self.event = true;
        Ok(())
    }

    fn op_reserve_regions(&mut self, t: usize, srcs: &[usize]) -> R<()> {
        if !self.caps.resreg {
            return Ok(());
        }
        let ti = t % self.pop.len();
        let sidx: Vec<usize> = srcs.iter().map(|s| s % self.pop.len()).collect();
        let peers = self.peers(ti);
        if peers.iter().any(|p| sidx.contains(p)) {
            // a region cannot be borrowed as its own source; skip for the whole group so that
            // lockstep members keep receiving identical histories
            return Ok(());
        }
        for i in peers {
            if self.pop[i].no_reserve {
                continue;
            }
            let owner = self.pop[i].owner;
            // take the target out to borrow the sources immutably
            let mut inst = self.pop.remove(i);
            let adj = |j: usize| if j > i { j - 1 } else { j };
            let r = {
                let refs: Vec<&T> = sidx.iter().map(|j| &self.pop[adj(*j)].sut).collect();
                catch(|| alloc::with_owner(owner, || inst.sut.reserve_regions(&refs)))
            };
            inst.origins |= O_RESERVED;
            let uid = inst.uid;
            self.pop.insert(i, inst);
            if let Err(p) = r {
                let d = format!("instance #{uid}: reserve_regions over {} sources panicked: {}", sidx.len(), p.short());
                return Err(self.stop(pbit(10) | pbit(2), "reserve_regions-panicked", d));
            }
            self.cx.hit(Probe::reserve_regions_call);
        }
        self.event = true;
        Ok(())
    }

    fn op_stack_reserve(&mut self, t: usize, n: usize) -> R<()> {
        if !self.caps.is_stack {
            return Ok(());
        }
        let ti = t % self.pop.len();
        for i in self.peers(ti) {
            if self.pop[i].no_reserve {
                continue;
            }
            let owner = self.pop[i].owner;
            let r = {
                let inst = &mut self.pop[i];
                catch(|| alloc::with_owner(owner, || inst.sut.stack_reserve(n)))
            };
            if let Err(p) = r {
                return Err(self.stop(pbit(10) | pbit(2) | pbit(3), "stack-reserve-panicked", p.short()));
            }
            self.pop[i].origins |= O_RESERVED;
            self.cx.hit(Probe::stack_reserve_call);
        }
        self.event = true;
        Ok(())
    }

    fn op_copy_item(&mut self, src: usize, h: usize, dst: usize, via_owned: bool) -> R<()> {
        if !self.caps.copy || self.pop.len() < 2 {
            return Ok(());
        }
        let si = src % self.pop.len();
        if self.pop[si].model.is_empty() {
            return Ok(());
        }
        let mut di = dst % self.pop.len();
        if di == si {
            di = (si + 1) % self.pop.len();
        }
        let mi = h % self.pop[si].model.len();
        let v = self.pop[si].model[mi].1.clone();
        // The destination's lockstep peers receive the same logical value through the canonical
        // form: "a read item taken from another region" is one more input form (C20).
        let peers: Vec<usize> = self.peers(di);
        let gp = self.pop[di].group.map(|g| (self.group(g).prop, self.group(g).cmp_idx));
        let mut reprs: Vec<(usize, String)> = Vec::new();
        for &i in &peers {
            let contract = self.in_contract(&self.pop[i], &v);
            let owner = self.pop[i].owner;
            // the source itself (when it is a lockstep peer of the destination) and
            // canonical-only twins receive the value through the canonical form
            let as_item = i != si && (i == di || !self.pop[i].canonical_only);
            let r = if as_item {
                let (a, b) = if si < i {
                    let (x, y) = self.pop.split_at_mut(i);
                    (&x[si], &mut y[0])
                } else {
                    let (x, y) = self.pop.split_at_mut(si);
                    (&y[0], &mut x[i])
                };
                let hsrc = a.model[mi].0.clone();
                catch(|| alloc::with_owner(owner, || b.sut.copy_item(&a.sut, &hsrc, via_owned)))
            } else {
                let inst = &mut self.pop[i];
                catch(|| alloc::with_owner(owner, || Some(inst.sut.push(&v, 0))))
            };
            match r {
                Ok(Some(hn)) => {
                    if !contract && self.coded == 1 {
                        let d = format!("instance #{}: region-to-region push of {} outside the statistics was accepted", self.pop[i].uid, v.render());
                        return Err(self.stop(pbit(6), "huffman/unknown-symbol-accepted", d));
                    }
                    let hr = T::hrepr(&hn);
                    let coded = self.coded;
                    let inst = &mut self.pop[i];
                    Self::note_stats(inst, coded, &v);
                    let stored = match inst.last_push {
                        Some(pi) if self.caps.collapse_top && v.peq(&inst.model[pi].1) => inst.model[pi].1.clone(),
                        _ => v.clone(),
                    };
                    inst.model.push((hn, stored));
                    inst.pushes_since_reset += 1;
                    inst.last_push = Some(inst.model.len() - 1);
                    inst.origins |= O_COPIED;
                    let nmi = inst.model.len() - 1;
                    if via_owned {
                        self.cx.hit(Probe::copy_item_owned);
                    } else {
                        self.cx.hit(Probe::copy_item_region);
                    }
                    if self.caps.dense {
                        let k = self.pop[i].pushes_since_reset - 1;
                        if hr != k.to_string() {
                            let d = format!("instance #{}: push number {k} (region-to-region) returned index {hr}", self.pop[i].uid);
                            return Err(self.stop(pbit(12), "dense/index-not-count", d));
                        }
                    }
                    self.check_handle(i, nmi, Ctx::Just, true)?;
                    reprs.push((i, hr));
                }
                Ok(None) => return Ok(()),
                Err(p) => {
                    if !contract {
                        self.cx.hit(Probe::refusal_fired);
                        // retire and stop processing this op
                        self.retire(i);
                        if self.pop.is_empty() {
                            self.spawn_default()?;
                        }
                        return Ok(());
                    }
                    let inst = &self.pop[i];
                    let props = pbit(14) | pbit(20) | pbit(1) | self.origin_props(inst);
                    let d = format!("instance #{}: pushing a read item ({}, via_owned={via_owned}) panicked: {}", inst.uid, v.render(), p.short());
                    return Err(self.stop(props, "copy-item-panicked", d));
                }
            }
        }
        if let Some((prop, true)) = gp {
            if reprs.len() > 1 && reprs.iter().any(|r| r.1 != reprs[0].1) {
                let d = format!("lockstep twins diverged on a region-to-region push of {}: {:?}", v.render(), reprs);
                return Err(self.stop(pbit(prop), "lockstep/index-differs", d));
            }
        }
        self.state_steps += 1;
        Ok(())
    }

    fn op_spawn(&mut self, kind: u8, n: usize) -> R<()> {
        match kind {
            1 | 2 => {
                if !self.room(2) {
                    return Ok(());
                }
                let a = self.spawn_default()?;
                let b = self.spawn_default()?;
                if kind == 1 {
                    self.pop[b].no_reserve = true;
                    self.join(a, b, 10, true, false, false);
                } else {
                    self.pop[b].canonical_only = true;
                    self.join(a, b, 20, true, true, false);
                }
            }
            3 => {
                if !self.room(1) {
                    return Ok(());
                }
                let owner = self.fresh_owner();
                match catch(|| alloc::with_owner(owner, || T::with_capacity(n))) {
                    Ok(Some(s)) => {
                        let mut inst = self.mk_inst(s, owner);
                        inst.origins |= O_RESERVED;
                        self.pop.push(inst);
                        // with_capacity must be invisible: keep a default twin in lockstep
                        if self.cfg.relations & crate::ops::REL_RESERVE != 0 && self.room(1) {
                            let a = self.pop.len() - 1;
                            let b = self.spawn_default()?;
                            self.join(a, b, 10, true, false, false);
                        }
                    }
                    Ok(None) => {
                        self.spawn_default()?;
                    }
                    Err(p) => return Err(self.stop(pbit(10) | pbit(3), "with_capacity-panicked", p.short())),
                }
            }
            _ => {
                if !self.room(1) {
                    return Ok(());
                }
                self.spawn_default()?;
            }
        }
        Ok(())
    }

    fn op_extend(&mut self, t: usize, vs: &[T::Val], lo: usize, hi: bool) -> R<()> {
        if !self.caps.is_stack {
            return Ok(());
        }
        let ti = t % self.pop.len();
        let peers = self.peers(ti);
        for (pi, &i) in peers.iter().enumerate() {
            let owner = self.pop[i].owner;
            // Within a lockstep group the base member takes `extend`, the others repeated `copy`:
            // extend must be equivalent to repeated copy.
            let use_extend = pi == 0;
            let r = {
                let inst = &mut self.pop[i];
                catch(|| {
                    alloc::with_owner(owner, || {
                        if use_extend {
                            inst.sut.extend(vs, lo, if hi { Some(vs.len()) } else { None })
                        } else {
                            Some(vs.iter().map(|v| inst.sut.push(v, 0)).collect())
                        }
                    })
                })
            };
            match r {
                Ok(Some(hs)) => {
                    let coded = self.coded;
                    let inst = &mut self.pop[i];
                    for (h, v) in hs.into_iter().zip(vs) {
                        Self::note_stats(inst, coded, v);
                        inst.model.push((h, v.clone()));
                        inst.pushes_since_reset += 1;
                    }
                    inst.last_push = inst.model.len().checked_sub(1);
                }
                Ok(None) => return Ok(()),
                Err(p) => {
                    if vs.iter().any(|v| !self.in_contract(&self.pop[i], v)) {
                        self.cx.hit(Probe::refusal_fired);
                        self.retire(i);
                        if self.pop.is_empty() {
                            self.spawn_default()?;
                        }
                        return Ok(());
                    }
                    let d = format!("instance #{}: extend with {} items (hint lo {lo}, hi {hi}) panicked: {}", self.pop[i].uid, vs.len(), p.short());
                    return Err(self.stop(pbit(3) | pbit(1), "extend-panicked", d));
                }
            }
        }
        self.cx.hit(Probe::extend_call);
        if lo == 0 {
            self.cx.hit(Probe::size_hint_lower_zero);
        }
        if lo == vs.len() && hi {
            self.cx.hit(Probe::size_hint_exact);
        }
        self.state_steps += 1;
        self.event = true;
        Ok(())
    }

    fn op_from_iter(&mut self, vs: &[T::Val], lo: usize, hi: bool) -> R<()> {
        if !self.caps.is_stack || !self.room(2) {
            return Ok(());
        }
        let owner = self.fresh_owner();
        let r = catch(|| alloc::with_owner(owner, || T::from_iter(vs, lo, if hi { Some(vs.len()) } else { None })));
        match r {
            Ok(Some((sut, hs))) => {
                let mut inst = self.mk_inst(sut, owner);
                inst.origins |= O_FROMITER;
                let coded = self.coded;
                for (h, v) in hs.into_iter().zip(vs) {
                    Self::note_stats(&mut inst, coded, v);
                    inst.model.push((h, v.clone()));
                    inst.pushes_since_reset += 1;
                }
                inst.last_push = inst.model.len().checked_sub(1);
                self.pop.push(inst);
                let a = self.pop.len() - 1;
                self.cx.hit(Probe::from_iter_call);
                // twin built by repeated copy, kept in lockstep
                let b = self.spawn_default()?;
                for v in vs {
                    let owner_b = self.pop[b].owner;
                    let r = {
                        let inst = &mut self.pop[b];
                        catch(|| alloc::with_owner(owner_b, || inst.sut.push(v, 0)))
                    };
                    match r {
                        Ok(h) => {
                            let inst = &mut self.pop[b];
                            Self::note_stats(inst, coded, v);
                            inst.model.push((h, v.clone()));
                            inst.pushes_since_reset += 1;
                        }
                        Err(p) => return Err(self.stop(pbit(1) | pbit(3), "push-panicked", p.short())),
                    }
                }
                self.pop[b].last_push = self.pop[b].model.len().checked_sub(1);
                self.join(a, b, 3, true, false, false);
            }
            Ok(None) => {}
            Err(p) => {
                let d = format!("from_iter with {} items (hint lo {lo}, hi {hi}) panicked: {}", vs.len(), p.short());
                return Err(self.stop(pbit(3) | pbit(1), "from_iter-panicked", d));
            }
        }
        self.state_steps += 1;
        self.event = true;
        Ok(())
    }

    /// Push the same value `n` times into instance `t` and its lockstep peers. Only the returned
    /// indices of the first, every 1024th and the last push are checked on the spot; all handles
    /// enter the model and are re-read by the normal schedule.
    fn op_bulk(&mut self, t: usize, v: &T::Val, n: usize) -> R<()> {
        let ti = t % self.pop.len();
        let peers = self.peers(ti);
        if peers.iter().any(|i| !self.in_contract(&self.pop[*i], v)) || v.stored_len().map(|l| l > 64).unwrap_or(false) {
            return Ok(());
        }
        let cmp_idx = self.pop[ti].group.map(|g| self.group(g).cmp_idx).unwrap_or(false);
        let gp = self.pop[ti].group.map(|g| self.group(g).prop).unwrap_or(0);
        let mut last_reprs: Vec<String> = Vec::new();
        for &i in &peers {
            let owner = self.pop[i].owner;
            let r = {
                let inst = &mut self.pop[i];
                catch(|| {
                    alloc::with_owner(owner, || {
                        let mut hs = Vec::with_capacity(n);
                        for _ in 0..n {
                            hs.push(inst.sut.push(v, 0));
                        }
                        hs
                    })
                })
            };
            let hs = match r {
                Ok(hs) => hs,
                Err(p) => {
                    let inst = &self.pop[i];
                    let props = pbit(1) | self.origin_props(inst);
                    let d = format!("instance #{} ({}): one of {n} consecutive pushes of {} panicked: {}", inst.uid, T::name(), v.render(), p.short());
                    return Err(self.stop(props, "push-panicked", d));
                }
            };
            self.cx.hit(Probe::bulk_push);
            self.cx.hits(Probe::bulk_items, n as u64);
            let coded = self.coded;
            let base = self.pop[i].pushes_since_reset;
            // dense rule on a sample
            if self.caps.dense {
                for k in (0..n).step_by(1024).chain(std::iter::once(n.saturating_sub(1))) {
                    if k < n && T::hrepr(&hs[k]) != (base + k).to_string() {
                        let d = format!("instance #{}: push number {} since creation/merge/clear returned index {}", self.pop[i].uid, base + k, T::hrepr(&hs[k]));
                        return Err(self.stop(pbit(12), "dense/index-not-count", d));
                    }
                }
            }
            last_reprs.push(hs.last().map(T::hrepr).unwrap_or_default());
            let collapse_top = self.caps.collapse_top;
            let inst = &mut self.pop[i];
            // A collapsing region keeps the *stored* item when the pushed one is equal by the owned
            // type's PartialEq (0.0 == -0.0), also across the boundary of this bulk push.
            let stored = match inst.last_push {
                Some(pi) if collapse_top && v.peq(&inst.model[pi].1) => inst.model[pi].1.clone(),
                _ => v.clone(),
            };
            for h in hs {
                Self::note_stats(inst, coded, v);
                inst.model.push((h, stored.clone()));
            }
            inst.pushes_since_reset += n;
            inst.last_push = inst.model.len().checked_sub(1);
            if n > 0 {
                let mi = self.pop[i].model.len() - 1;
                self.check_handle(i, mi, Ctx::Just, false)?;
            }
        }
        if cmp_idx && last_reprs.iter().any(|r| *r != last_reprs[0]) {
            let d = format!("lockstep twins diverged after {n} pushes of {}: last indices {:?}", v.render(), last_reprs);
            return Err(self.stop(pbit(gp), "lockstep/index-differs", d));
        }
        self.state_steps += 1;
        self.event = true;
        Ok(())
    }

    fn final_checks(&mut self) -> R<()> {
        self.reread_all()?;
        self.whole_all()?;
        // groups that promise identical serialisations
        let gids: Vec<(u32, u8)> = self.groups.iter().filter(|g| g.cmp_ser).map(|g| (g.id, g.prop)).collect();
        if self.caps.serde {
            for (gid, prop) in gids {
                let members: Vec<usize> = (0..self.pop.len()).filter(|i| self.pop[*i].group == Some(gid)).collect();
                if members.len() < 2 || members.iter().any(|i| self.pop[*i].model.iter().any(|(_, v)| !v.json_safe())) {
                    continue;
                }
                let mut texts: Vec<(u32, String)> = Vec::new();
                for i in members {
                    let inst = &self.pop[i];
                    if let Ok(Some(Ok(s))) = catch(|| inst.sut.ser()) {
                        texts.push((inst.uid, s));
                    }
                }
                if texts.len() > 1 && texts.iter().any(|t| t.1 != texts[0].1) {
                    let d = format!(
                        "lockstep members serialise differently at the end of the run: #{} {} vs #{} {}",
                        texts[0].0,
                        crate::trunc(&texts[0].1, 300),
                        texts[1].0,
                        crate::trunc(&texts.iter().find(|t| t.1 != texts[0].1).unwrap().1, 300)
                    );
                    return Err(self.stop(pbit(prop), "lockstep/serialisation-differs", d));
                }
            }
        }
        Ok(())
    }

    fn apply(&mut self, op: &Op<T::Val>) -> R<()> {
        match op {
            Op::Push { t, v, form } => self.op_push(*t, v, *form),
            Op::Clear { t, twin } => self.op_clear(*t, *twin),
            Op::Clone { t, lockstep } => self.op_clone(*t, *lockstep),
            Op::CloneFrom { src, dst, lockstep, third } => self.op_clone_from(*src, *dst, *lockstep, *third),
            Op::Merge { srcs, twin } => self.op_merge(srcs, *twin),
            Op::Restart { t, lockstep } => self.op_restart(*t, *lockstep),
            Op::ReserveItems { t, vs, form } => self.op_reserve_items(*t, vs, *form),
            Op::ReserveRegions { t, srcs } => self.op_reserve_regions(*t, srcs),
            Op::StackReserve { t, n } => self.op_stack_reserve(*t, *n),
            Op::CopyItem { src, h, dst, via_owned } => self.op_copy_item(*src, *h, *dst, *via_owned),
            Op::Spawn { kind, n } => self.op_spawn(*kind, *n),
            Op::Retire { t } => {
                if self.pop.len() > 1 {
                    let ti = t % self.pop.len();
                    self.retire(ti);
                }
                Ok(())
            }
            Op::Extend { t, vs, lo, hi } => self.op_extend(*t, vs, *lo, *hi),
            Op::FromIter { vs, lo, hi } => self.op_from_iter(vs, *lo, *hi),
            Op::Bulk { t, v, n } => self.op_bulk(*t, v, *n),
        }
    }
}

/// Execute a schedule. Pure function of (`ops`, `cfg`, the code under test).
pub fn exec<T: Sut>(ops: &[Op<T::Val>], cfg: &RunCfg) -> ExecOut {
    alloc::reset();
    alloc::set_knobs(cfg.move_on_realloc, cfg.poison_on_free);
    let mut sim: Sim<T> = Sim::new(cfg);
    let mut kinds = Vec::with_capacity(ops.len());
    let mut outcome = Outcome::Clean;
    let mut steps_done = 0;
    let reread_every = if ops.len() <= 64 { 1 } else { 16 };
    let r: R<()> = (|| {
        sim.spawn_default()?;
        for (step, op) in ops.iter().enumerate() {
            sim.step = step;
            sim.event = false;
            sim.dig.u64(op.kind() as u64);
            kinds.push(op.kind() as u8);
            let moved_before = alloc::snap(0).moved;
            sim.apply(op)?;
            let _ = moved_before;
            if step % reread_every == 0 || sim.event {
                sim.reread_all()?;
            }
            if sim.caps.is_stack && (sim.cfg.prop == 3 || step % 4 == 0) {
                sim.whole_all()?;
            }
            if sim.cfg.prop == 18 {
                sim.check_lower_bounds()?;
            }
            steps_done = step + 1;
        }
        sim.step = ops.len();
        sim.final_checks()
    })();
    if let Err(Stop(o)) = r {
        outcome = o;
    }
    match &outcome {
        Outcome::Clean => sim.dig.str("clean"),
        Outcome::Violation(v) => sim.dig.str(&v.oracle),
        Outcome::Foreign { oracle, .. } => sim.dig.str(oracle),
    }
    // count forced realloc moves over all owners of this run
    let mut moved = 0;
    for o in 0..(sim.next_uid + 2).min(alloc::MAX_OWNERS as u32) {
        moved += alloc::snap(o).moved;
    }
    sim.cx.hits(Probe::realloc_moved, moved);
    // tear down under catch (drop of a corrupted instance must not take the harness down)
    let pop = std::mem::take(&mut sim.pop);
    let _ = catch(move || drop(pop));
    alloc::set_knobs(false, false);
    ExecOut { outcome, steps_done, state_steps: sim.state_steps, digest: sim.dig.0, probes: sim.cx.probes, kinds }
}

#[allow(dead_code)]
pub fn panic_is_overflow(p: &PanicRec) -> bool {
    p.msg.contains("overflow")
}
