//! A caller-supplied `Codec` (the caller-code seam of `CodecRegion<C, R>`): small, `Clone`, and with
//! state that matters for decoding, so that `CodecRegion`'s own `clone` / `clone_from` /
//! `merge_regions` / `clear` plumbing is exercised with a codec other than the crate's dictionary
//! (which is not `Clone`). It accepts every input.
//!
//! Stored forms: `[TAG0 + i]` = table entry i; `[ESC, literal...]` = a literal whose first byte is
//! >= ESC; anything else = the literal itself.

use flatcontainer::impls::codec::Codec;
use flatcontainer::{Push, Region};

const ESC: u8 = 0xEF;
const TAG0: u8 = 0xF0;

#[derive(Default, Clone, Debug)]
pub struct UserCodec {
    table: Vec<Vec<u8>>,
    seen: Vec<Vec<u8>>,
}

impl Codec for UserCodec {
    fn decode<'a>(&'a self, bytes: &'a [u8]) -> &'a [u8] {
        match bytes.first() {
            Some(&b) if b >= TAG0 && bytes.len() == 1 => match self.table.get((b - TAG0) as usize) {
                Some(e) => e,
                None => bytes,
            },
            Some(&ESC) => &bytes[1..],
            _ => bytes,
        }
    }

    fn encode<R>(&mut self, bytes: &[u8], output: &mut R) -> R::Index
    where
        for<'a> R: Region + Push<&'a [u8]>,
    {
        if bytes.len() >= 2 && self.seen.len() < 12 && !self.seen.iter().any(|s| s == bytes) {
            self.seen.push(bytes.to_vec());
        }
        if let Some(i) = self.table.iter().position(|t| t == bytes) {
            output.push([TAG0 + i as u8].as_slice())
        } else if bytes.first().is_some_and(|b| *b >= ESC) {
            let mut v = Vec::with_capacity(bytes.len() + 1);
            v.push(ESC);
            v.extend_from_slice(bytes);
            output.push(v.as_slice())
        } else {
            output.push(bytes)
        }
    }

    fn new_from<'a, I: Iterator<Item = &'a Self> + Clone>(stats: I) -> Self
    where
        Self: 'a,
    {
        let mut table: Vec<Vec<u8>> = stats.flat_map(|s| s.seen.iter().chain(s.table.iter()).cloned()).collect();
        table.sort();
        table.dedup();
        table.truncate(15);
        UserCodec { table, seen: Vec::new() }
    }

    fn heap_size<F: FnMut(usize, usize)>(&self, mut callback: F) {
        let w = std::mem::size_of::<Vec<u8>>();
        callback(self.table.len() * w, self.table.capacity() * w);
        callback(self.seen.len() * w, self.seen.capacity() * w);
        for e in self.table.iter().chain(self.seen.iter()) {
            callback(e.len(), e.capacity());
        }
    }
}
