//! Operation alphabet, swarm configuration and seeded schedule generation for the history
//! simulator. A schedule is generated *up front* from the run's PRNG and is independent of the
//! state it will meet: every operand is relative ("the j-th live instance mod count"), so any
//! sub-sequence of a schedule is again a well-formed schedule (needed for minimisation).

use crate::rng::Rng;
use crate::sut::Caps;
use crate::value::{Gen, Knobs, Value};
use serde_json::{json, Value as J};

#[derive(Clone, Debug)]
pub enum Op<V> {
    Push { t: usize, v: V, form: usize },
    /// clear; `twin`: afterwards spawn a fresh default instance in lockstep with the cleared one
    Clear { t: usize, twin: bool },
    Clone { t: usize, lockstep: bool },
    /// dst.clone_from(src); `third`: additionally keep a plain `clone()` of src in lockstep
    CloneFrom { src: usize, dst: usize, lockstep: bool, third: bool },
    /// merge_regions / merge_capacity over sources; `twin`: keep a default instance in lockstep
    Merge { srcs: Vec<usize>, twin: bool },
    /// serialise -> drop -> deserialise into a new instance
    Restart { t: usize, lockstep: bool },
    ReserveItems { t: usize, vs: Vec<V>, form: usize },
    ReserveRegions { t: usize, srcs: Vec<usize> },
    StackReserve { t: usize, n: usize },
    CopyItem { src: usize, h: usize, dst: usize, via_owned: bool },
    /// 0 single default; 1 pair whose twin never reserves (C10); 2 pair whose twin only gets
    /// canonical forms (C20); 3 with_capacity(n)
    Spawn { kind: u8, n: usize },
    Retire { t: usize },
    Extend { t: usize, vs: Vec<V>, lo: usize, hi: bool },
    /// new stack via from_iter, with a twin built by repeated copy kept in lockstep
    FromIter { vs: Vec<V>, lo: usize, hi: bool },
    /// push the same value `n` times (crossing size thresholds such as 2^16 entries cheaply)
    Bulk { t: usize, v: V, n: usize },
}

pub const NKINDS: usize = 15;
pub const KIND_NAMES: [&str; NKINDS] = [
    "Push",
    "Clear",
    "Clone",
    "CloneFrom",
    "Merge",
    "Restart",
    "ReserveItems",
    "ReserveRegions",
    "StackReserve",
    "CopyItem",
    "Spawn",
    "Retire",
    "Extend",
    "FromIter",
    "Bulk",
];

impl<V: Value> Op<V> {
    pub fn kind(&self) -> usize {
        match self {
            Op::Push { .. } => 0,
            Op::Clear { .. } => 1,
            Op::Clone { .. } => 2,
            Op::CloneFrom { .. } => 3,
            Op::Merge { .. } => 4,
            Op::Restart { .. } => 5,
            Op::ReserveItems { .. } => 6,
            Op::ReserveRegions { .. } => 7,
            Op::StackReserve { .. } => 8,
            Op::CopyItem { .. } => 9,
            Op::Spawn { .. } => 10,
            Op::Retire { .. } => 11,
            Op::Extend { .. } => 12,
            Op::FromIter { .. } => 13,
            Op::Bulk { .. } => 14,
        }
    }

    pub fn to_json(&self) -> J {
        let vals = |vs: &Vec<V>| J::Array(vs.iter().map(Value::to_json).collect());
        match self {
            Op::Push { t, v, form } => json!({"op":"Push","t":t,"form":form,"v":v.to_json()}),
            Op::Clear { t, twin } => json!({"op":"Clear","t":t,"twin":twin}),
            Op::Clone { t, lockstep } => json!({"op":"Clone","t":t,"lockstep":lockstep}),
            Op::CloneFrom { src, dst, lockstep, third } => json!({"op":"CloneFrom","src":src,"dst":dst,"lockstep":lockstep,"third":third}),
            Op::Merge { srcs, twin } => json!({"op":"Merge","srcs":srcs,"twin":twin}),
            Op::Restart { t, lockstep } => json!({"op":"Restart","t":t,"lockstep":lockstep}),
            Op::ReserveItems { t, vs, form } => json!({"op":"ReserveItems","t":t,"form":form,"vs":vals(vs)}),
            Op::ReserveRegions { t, srcs } => json!({"op":"ReserveRegions","t":t,"srcs":srcs}),
            Op::StackReserve { t, n } => json!({"op":"StackReserve","t":t,"n":n}),
            Op::CopyItem { src, h, dst, via_owned } => json!({"op":"CopyItem","src":src,"h":h,"dst":dst,"via_owned":via_owned}),
            Op::Spawn { kind, n } => json!({"op":"Spawn","kind":kind,"n":n}),
            Op::Retire { t } => json!({"op":"Retire","t":t}),
            Op::Extend { t, vs, lo, hi } => json!({"op":"Extend","t":t,"lo":lo,"hi":hi,"vs":vals(vs)}),
            Op::FromIter { vs, lo, hi } => json!({"op":"FromIter","lo":lo,"hi":hi,"vs":vals(vs)}),
            Op::Bulk { t, v, n } => json!({"op":"Bulk","t":t,"n":n,"v":v.to_json()}),
        }
    }

    pub fn from_json(j: &J) -> Option<Self> {
        let u = |k: &str| j.get(k).and_then(J::as_u64).map(|x| x as usize);
        let b = |k: &str| j.get(k).and_then(J::as_bool);
        let us = |k: &str| -> Option<Vec<usize>> { j.get(k)?.as_array()?.iter().map(|x| x.as_u64().map(|y| y as usize)).collect() };
        let vs = |k: &str| -> Option<Vec<V>> { j.get(k)?.as_array()?.iter().map(V::from_json).collect() };
        Some(match j.get("op")?.as_str()? {
            "Push" => Op::Push { t: u("t")?, v: V::from_json(j.get("v")?)?, form: u("form")? },
            "Clear" => Op::Clear { t: u("t")?, twin: b("twin")? },
            "Clone" => Op::Clone { t: u("t")?, lockstep: b("lockstep")? },
            "CloneFrom" => Op::CloneFrom { src: u("src")?, dst: u("dst")?, lockstep: b("lockstep")?, third: b("third")? },
            "Merge" => Op::Merge { srcs: us("srcs")?, twin: b("twin")? },
            "Restart" => Op::Restart { t: u("t")?, lockstep: b("lockstep")? },
            "ReserveItems" => Op::ReserveItems { t: u("t")?, vs: vs("vs")?, form: u("form")? },
            "ReserveRegions" => Op::ReserveRegions { t: u("t")?, srcs: us("srcs")? },
            "StackReserve" => Op::StackReserve { t: u("t")?, n: u("n")? },
            "CopyItem" => Op::CopyItem { src: u("src")?, h: u("h")?, dst: u("dst")?, via_owned: b("via_owned")? },
            "Spawn" => Op::Spawn { kind: u("kind")? as u8, n: u("n")? },
            "Retire" => Op::Retire { t: u("t")? },
            "Extend" => Op::Extend { t: u("t")?, vs: vs("vs")?, lo: u("lo")?, hi: b("hi")? },
            "FromIter" => Op::FromIter { vs: vs("vs")?, lo: u("lo")?, hi: b("hi")? },
            "Bulk" => Op::Bulk { t: u("t")?, v: V::from_json(j.get("v")?)?, n: u("n")? },
            _ => return None,
        })
    }

    /// Strictly simpler variants of this operation (for minimisation).
    pub fn shrinks(&self) -> Vec<Self> {
        let mut out = Vec::new();
        match self {
            Op::Push { t, v, form } => {
                if *form != 0 {
                    out.push(Op::Push { t: *t, v: v.clone(), form: 0 });
                }
                for s in v.shrinks().into_iter().take(12) {
                    out.push(Op::Push { t: *t, v: s, form: *form });
                }
                if *t != 0 {
                    out.push(Op::Push { t: 0, v: v.clone(), form: *form });
                }
            }
            Op::ReserveItems { t, vs, form } => {
                if !vs.is_empty() {
                    out.push(Op::ReserveItems { t: *t, vs: vec![], form: *form });
                    out.push(Op::ReserveItems { t: *t, vs: vs[..vs.len() / 2].to_vec(), form: *form });
                }
                if *form != 0 {
                    out.push(Op::ReserveItems { t: *t, vs: vs.clone(), form: 0 });
                }
            }
            Op::Extend { t, vs, lo, hi } => {
                if !vs.is_empty() {
                    out.push(Op::Extend { t: *t, vs: vs[..vs.len() / 2].to_vec(), lo: *lo, hi: *hi });
                    out.push(Op::Extend { t: *t, vs: vs[1..].to_vec(), lo: *lo, hi: *hi });
                    for (i, v) in vs.iter().enumerate().take(4) {
                        for s in v.shrinks().into_iter().take(3) {
                            let mut c = vs.clone();
                            c[i] = s;
                            out.push(Op::Extend { t: *t, vs: c, lo: *lo, hi: *hi });
                        }
                    }
                }
                if *lo != 0 {
                    out.push(Op::Extend { t: *t, vs: vs.clone(), lo: 0, hi: *hi });
                }
            }
            Op::FromIter { vs, lo, hi } => {
                if !vs.is_empty() {
                    out.push(Op::FromIter { vs: vs[..vs.len() / 2].to_vec(), lo: *lo, hi: *hi });
                    out.push(Op::FromIter { vs: vs[1..].to_vec(), lo: *lo, hi: *hi });
                }
            }
            Op::Merge { srcs, twin } => {
                if !srcs.is_empty() {
                    out.push(Op::Merge { srcs: srcs[..srcs.len() - 1].to_vec(), twin: *twin });
                }
            }
            Op::ReserveRegions { t, srcs } => {
                if !srcs.is_empty() {
                    out.push(Op::ReserveRegions { t: *t, srcs: srcs[..srcs.len() - 1].to_vec() });
                }
            }
            Op::StackReserve { t, n } => {
                if *n > 1 {
                    out.push(Op::StackReserve { t: *t, n: 1 });
                }
            }
            Op::Bulk { t, v, n } => {
                if *n > 1 {
                    out.push(Op::Bulk { t: *t, v: v.clone(), n: n / 2 });
                    out.push(Op::Bulk { t: *t, v: v.clone(), n: n - 1 });
                }
                for s in v.shrinks().into_iter().take(4) {
                    out.push(Op::Bulk { t: *t, v: s, n: *n });
                }
            }
            Op::Spawn { kind, n } => {
                if *n > 0 {
                    out.push(Op::Spawn { kind: *kind, n: 0 });
                }
            }
            _ => {}
        }
        out
    }
}

/// Per-run swarm configuration (drawn first from the run's PRNG, or read from a replay file).
#[derive(Clone, Debug)]
pub struct RunCfg {
    /// property number under check (1..=20)
    pub prop: u8,
    pub steps: usize,
    pub pop_cap: usize,
    pub weights: [u32; NKINDS],
    pub knobs: Knobs,
    pub move_on_realloc: bool,
    pub poison_on_free: bool,
    pub oob: bool,
    pub borrowed: bool,
    pub laws: bool,
    pub full: bool,
    /// probability (1/16) to reuse a recently generated value (forces equal neighbours)
    pub repeat: u8,
    /// probability (1/16) that a relation-creating op runs in lockstep rather than diverging
    pub lockstep: u8,
    /// which relation kinds may be created in lockstep (bit per Origin)
    pub relations: u8,
    /// first op of the run
    pub first_spawn: u8,
    pub noncanonical_forms: bool,
}

pub const REL_CLEAR: u8 = 1;
pub const REL_CLONE: u8 = 2;
pub const REL_RESERVE: u8 = 4;
pub const REL_MERGE: u8 = 8;
pub const REL_RESTART: u8 = 16;
pub const REL_FORMS: u8 = 32;
pub const REL_FROMITER: u8 = 64;

impl RunCfg {
    pub fn to_json(&self) -> J {
        json!({
            "prop": self.prop, "steps": self.steps, "pop_cap": self.pop_cap, "weights": self.weights.to_vec(),
            "knobs": self.knobs.to_json(), "move_on_realloc": self.move_on_realloc, "poison_on_free": self.poison_on_free,
            "oob": self.oob, "borrowed": self.borrowed, "laws": self.laws, "full": self.full, "repeat": self.repeat,
            "lockstep": self.lockstep, "relations": self.relations, "first_spawn": self.first_spawn,
            "noncanonical_forms": self.noncanonical_forms,
        })
    }
    pub fn from_json(j: &J) -> Option<Self> {
        let u = |k: &str| j.get(k).and_then(J::as_u64);
        let b = |k: &str| j.get(k).and_then(J::as_bool);
        let mut weights = [0u32; NKINDS];
        for (i, w) in j.get("weights")?.as_array()?.iter().enumerate().take(NKINDS) {
            weights[i] = w.as_u64()? as u32;
        }
        let kj = j.get("knobs")?;
        let ku = |k: &str| kj.get(k).and_then(J::as_u64);
        let knobs = Knobs {
            str_class: ku("str_class")? as u8,
            small_domain: ku("small_domain")? as u8,
            max_len: ku("max_len")? as usize,
            int_mode: ku("int_mode")? as u8,
            arith_step: ku("arith_step")?,
            arith_next: 0,
            nonfinite: kj.get("nonfinite")?.as_bool()?,
            empty_bias: ku("empty_bias")? as u8,
            zst_huge: kj.get("zst_huge").and_then(J::as_bool).unwrap_or(false),
            fixed_len: kj.get("fixed_len").and_then(J::as_u64).unwrap_or(0) as usize,
        };
        Some(RunCfg {
            prop: u("prop")? as u8,
            steps: u("steps")? as usize,
            pop_cap: u("pop_cap")? as usize,
            weights,
            knobs,
            move_on_realloc: b("move_on_realloc")?,
            poison_on_free: b("poison_on_free")?,
            oob: b("oob")?,
            borrowed: b("borrowed")?,
            laws: b("laws")?,
            full: b("full")?,
            repeat: u("repeat")? as u8,
            lockstep: u("lockstep")? as u8,
            relations: u("relations")? as u8,
            first_spawn: u("first_spawn")? as u8,
            noncanonical_forms: b("noncanonical_forms")?,
        })
    }

    /// Draw the swarm configuration for one run of property `prop` on a SUT with `caps`.
    pub fn draw(prop: u8, caps: &Caps, thorough: bool, rng: &mut Rng) -> RunCfg {
        // indices: Push Clear Clone CloneFrom Merge Restart ResItems ResRegions StackRes CopyItem Spawn Retire Extend FromIter
        let mut w: [u32; NKINDS] = match prop {
            1 => [90, 3, 2, 0, 1, 0, 2, 0, 0, 2, 2, 1, 0, 0, 0],
            2 => [70, 2, 2, 0, 1, 0, 8, 5, 5, 2, 2, 1, 3, 0, 0],
            3 => [45, 5, 8, 3, 2, 0, 2, 0, 8, 3, 3, 1, 15, 6, 0],
            4 => [50, 6, 8, 5, 5, 8, 1, 1, 0, 6, 2, 1, 2, 1, 0],
            8 => [60, 14, 2, 0, 2, 0, 2, 1, 1, 1, 3, 2, 3, 0, 0],
            9 => [55, 5, 12, 12, 1, 0, 1, 1, 1, 1, 4, 3, 2, 0, 0],
            10 => [50, 3, 1, 0, 10, 0, 10, 8, 5, 1, 6, 2, 2, 0, 0],
            11 => [80, 5, 4, 2, 3, 4, 0, 0, 0, 2, 2, 1, 0, 0, 0],
            12 => [80, 8, 1, 2, 6, 0, 1, 1, 0, 2, 2, 1, 0, 0, 0],
            13 => [85, 3, 1, 1, 1, 0, 1, 1, 0, 2, 2, 1, 3, 0, 0],
            14 => [60, 3, 3, 1, 2, 2, 0, 0, 0, 25, 3, 1, 0, 0, 0],
            16 => [60, 5, 1, 0, 1, 16, 2, 1, 1, 2, 2, 1, 3, 0, 0],
            18 => [75, 8, 2, 1, 3, 0, 3, 2, 2, 2, 2, 1, 3, 0, 0],
            20 => [80, 3, 1, 0, 1, 0, 0, 0, 0, 8, 3, 1, 3, 0, 0],
            _ => [80, 4, 3, 1, 2, 2, 2, 1, 1, 2, 2, 1, 2, 1, 0],
        };
        // swarm: randomly damp or boost some kinds, occasionally switch one off entirely
        for x in w.iter_mut().skip(1) {
            match rng.below(8) {
                0 => *x = 0,
                1 => *x *= 3,
                _ => {}
            }
        }
        if !caps.clone {
            w[2] = 0;
            w[3] = 0;
        }
        if !caps.serde {
            w[5] = 0;
        }
        if caps.nrforms == 0 {
            w[6] = 0;
        }
        if !caps.resreg {
            w[7] = 0;
        }
        if !caps.is_stack {
            w[8] = 0;
            w[12] = 0;
            w[13] = 0;
        }
        if !caps.copy {
            w[9] = 0;
        }
        if w[0] == 0 {
            w[0] = 50;
        }
        // rare bulk pushes that cross size thresholds (2^16 entries) cheaply
        w[14] = if matches!(prop, 1 | 2 | 8 | 9 | 10 | 12 | 16 | 18) && rng.chance(1, if thorough { 200 } else { 1500 }) { 6 } else { 0 };
        let max_steps = if thorough { 256 } else { 64 };
        let mut steps = match rng.below(8) {
            0 => 2 + rng.below(5),
            1 | 2 => 4 + rng.below(12),
            3 | 4 | 5 => 8 + rng.below(40),
            _ => 16 + rng.below(max_steps),
        };
        // rare long dense runs that cross many capacity doublings with thousands of live indices
        let long_run = thorough && matches!(prop, 1 | 2 | 12 | 18) && rng.chance(1, 96);
        if long_run {
            steps = 1000 + rng.below(3000);
            for x in w.iter_mut().skip(1) {
                *x = (*x).min(1);
            }
            w[0] = 400;
        }
        let mut knobs = Knobs::draw(rng, if thorough { 12 } else { 8 });
        let (relations, first_spawn) = match prop {
            8 => (REL_CLEAR, 0),
            9 => (REL_CLONE, 0),
            10 => (REL_RESERVE | REL_MERGE, 1),
            16 => (REL_RESTART, 0),
            20 => (REL_FORMS, 2),
            3 => (REL_FROMITER, 0),
            _ => (0, 0),
        };
        if prop == 16 || prop == 4 || prop == 11 {
            // JSON cannot carry non-finite floats: a limitation of the format, not of the crate
            knobs.nonfinite = !(caps.serde && w[5] > 0);
        }
        knobs.zst_huge = caps.zst_huge && rng.coin();
        if prop == 14 && rng.chance(1, 4) {
            // clone_onto targets with large allocations
            knobs.max_len = 40 + rng.below(60);
        }
        if prop == 11 && knobs.small_domain == 0 {
            knobs.small_domain = 2 + rng.below(3) as u8;
        }
        RunCfg {
            prop,
            steps,
            pop_cap: 2 + rng.below(7),
            weights: w,
            knobs,
            move_on_realloc: rng.coin(),
            poison_on_free: rng.coin(),
            oob: matches!(prop, 13 | 3) || (prop == 1 && rng.chance(1, 4)),
            borrowed: matches!(prop, 13 | 14 | 1),
            laws: prop == 14,
            full: !matches!(prop, 2) || rng.chance(1, 4),
            repeat: *rng.pick(&[0u8, 2, 4, 8]),
            lockstep: *rng.pick(&[4u8, 8, 12, 16]),
            relations,
            first_spawn,
            noncanonical_forms: prop != 17,
        }
    }
}

/// Number of letters of the stratified alphabet (C02's "bounded-exhaustively for short histories").
pub const STRAT_LETTERS: u64 = 7;

/// The fixed (non-swarm) configuration used for the stratified histories.
pub fn strat_cfg(prop: u8, index: u64) -> RunCfg {
    let mut w = [0u32; NKINDS];
    w[0] = 1;
    RunCfg {
        prop,
        steps: 0,
        pop_cap: 2,
        weights: w,
        knobs: Knobs { small_domain: 2, ..Knobs::default() },
        move_on_realloc: index % 2 == 1,
        poison_on_free: index % 2 == 1,
        oob: false,
        borrowed: false,
        laws: false,
        full: true,
        repeat: 0,
        lockstep: 0,
        relations: 0,
        first_spawn: 0,
        noncanonical_forms: true,
    }
}

pub fn strat_total(max_len: u32) -> u64 {
    (1..=max_len).map(|k| STRAT_LETTERS.pow(k)).sum()
}

/// Decode run `index` into a history over a 7-letter alphabet: push of one of three small values
/// (the third in a non-canonical form), reserve_items, reserve_regions from itself is impossible
/// so: FlatStack::reserve / reserve_items with other contents, a deduplicating repeat, clear.
pub fn strat_ops<V: Value>(index: u64, caps: &Caps, fixed_seed: u64) -> Vec<Op<V>> {
    // three small values of this composition, fixed for the whole sweep
    let mut rng = Rng::new(fixed_seed);
    let mut knobs = Knobs { small_domain: 2, max_len: 2, empty_bias: 4, ..Knobs::default() };
    let vals: Vec<V> = (0..3).map(|_| V::gen(&mut Gen::new(&mut rng, &mut knobs))).collect();
    let mut off = index;
    let mut len = 1u32;
    while off >= STRAT_LETTERS.pow(len) {
        off -= STRAT_LETTERS.pow(len);
        len += 1;
    }
    let mut ops = Vec::with_capacity(len as usize);
    for _ in 0..len {
        let l = off % STRAT_LETTERS;
        off /= STRAT_LETTERS;
        ops.push(match l {
            0 => Op::Push { t: 0, v: vals[0].clone(), form: 0 },
            1 => Op::Push { t: 0, v: vals[1].clone(), form: 0 },
            2 => Op::Push { t: 0, v: vals[2].clone(), form: if caps.nforms > 1 { 1 + (index as usize % (caps.nforms - 1)) } else { 0 } },
            3 => Op::ReserveItems { t: 0, vs: vec![vals[1].clone(), vals[2].clone()], form: 0 },
            4 => {
                if caps.is_stack {
                    Op::StackReserve { t: 0, n: 3 }
                } else {
                    Op::ReserveItems { t: 0, vs: vec![vals[0].clone(); 5], form: caps.nrforms.saturating_sub(1) }
                }
            }
            5 => Op::Push { t: 0, v: vals[1].clone(), form: caps.nforms.saturating_sub(1) },
            _ => Op::Clear { t: 0, twin: false },
        });
    }
    ops
}

/// Generate a whole schedule from the PRNG.
pub fn gen_ops<V: Value>(cfg: &mut RunCfg, caps: &Caps, rng: &mut Rng) -> Vec<Op<V>> {
    let mut ops: Vec<Op<V>> = Vec::with_capacity(cfg.steps + 1);
    let mut recent: Vec<V> = Vec::new();
    let mut knobs = cfg.knobs.clone();
    let mut val = |rng: &mut Rng, recent: &mut Vec<V>, repeat: u8| -> V {
        if !recent.is_empty() && rng.chance(repeat as u32, 16) {
            return recent[rng.below(recent.len())].clone();
        }
        let v = V::gen(&mut Gen::new(rng, &mut knobs));
        if recent.len() >= 4 {
            let i = rng.below(recent.len());
            recent[i] = v.clone();
        } else {
            recent.push(v.clone());
        }
        v
    };
    if cfg.first_spawn != 0 {
        ops.push(Op::Spawn { kind: cfg.first_spawn, n: 0 });
    }
    if cfg.weights[4] > 0 && cfg.weights[0] > 0 && rng.chance(1, 6) {
        // structured opening: three sources, the middle one usually left empty (for a columns region:
        // no column at all), merged in this order; then values the outer sources hold are pushed into
        // the result. Statistics-carrying merges (coded leaves under columns / slices / pairs) must
        // cover every source, wherever it stands in the list.
        ops.push(Op::Spawn { kind: 0, n: 0 });
        ops.push(Op::Spawn { kind: 0, n: 0 });
        let mid = if rng.chance(2, 3) { 0 } else { 1 };
        for (t, cnt) in [(0usize, 1 + rng.below(3)), (2, 1 + rng.below(4)), (1, mid)] {
            for _ in 0..cnt {
                ops.push(Op::Push { t, v: val(rng, &mut recent, 0), form: 0 });
            }
        }
        ops.push(Op::Merge { srcs: vec![0, 1, 2], twin: false });
        for _ in 0..(2 + rng.below(4)) {
            ops.push(Op::Push { t: 3, v: val(rng, &mut recent, 14), form: 0 });
        }
    }
    let rel = |rng: &mut Rng, bit: u8, cfg: &RunCfg| -> bool { cfg.relations & bit != 0 && rng.chance(cfg.lockstep as u32, 16) };
    for _ in 0..cfg.steps {
        let k = rng.weighted(&cfg.weights);
        let t = rng.below(64);
        let op = match k {
            0 => {
                let form = if cfg.noncanonical_forms && caps.nforms > 1 && rng.chance(3, 4) { rng.below(caps.nforms) } else { 0 };
                Op::Push { t, v: val(rng, &mut recent, cfg.repeat), form }
            }
            1 => Op::Clear { t, twin: rel(rng, REL_CLEAR, cfg) },
            2 => Op::Clone { t, lockstep: rel(rng, REL_CLONE, cfg) },
            3 => Op::CloneFrom { src: t, dst: rng.below(64), lockstep: rel(rng, REL_CLONE, cfg), third: cfg.relations & REL_CLONE != 0 && rng.coin() },
            4 => {
                let n = rng.weighted(&[2, 4, 3, 1, 1]);
                Op::Merge { srcs: (0..n).map(|_| rng.below(64)).collect(), twin: rel(rng, REL_MERGE, cfg) }
            }
            5 => Op::Restart { t, lockstep: rel(rng, REL_RESTART, cfg) },
            6 => {
                let n = rng.small_len(6);
                let vs = (0..n).map(|_| val(rng, &mut recent, cfg.repeat)).collect();
                Op::ReserveItems { t, vs, form: rng.below(caps.nrforms.max(1)) }
            }
            7 => {
                let n = rng.below(4);
                Op::ReserveRegions { t, srcs: (0..n).map(|_| rng.below(64)).collect() }
            }
            8 => Op::StackReserve { t, n: *rng.pick(&[0usize, 1, 2, 7, 64, 1000]) },
            9 => Op::CopyItem { src: t, h: rng.below(1 << 16), dst: rng.below(64), via_owned: rng.coin() },
            10 => {
                let kind = if caps.is_stack && rng.chance(1, 3) {
                    3
                } else if cfg.relations & REL_RESERVE != 0 && rng.coin() {
                    1
                } else if cfg.relations & REL_FORMS != 0 && rng.coin() {
                    2
                } else {
                    0
                };
                Op::Spawn { kind, n: *rng.pick(&[0usize, 1, 3, 16, 100]) }
            }
            11 => Op::Retire { t },
            14 => Op::Bulk { t, v: val(rng, &mut recent, cfg.repeat), n: *rng.pick(&[300usize, 5000, 65535, 65536, 70000]) },
            12 | 13 => {
                let n = rng.small_len(8);
                let vs: Vec<V> = (0..n).map(|_| val(rng, &mut recent, cfg.repeat)).collect();
                // a *valid* size hint: lower bound anywhere in 0..=n, upper bound exact or unknown
                let lo = match rng.below(3) {
                    0 => 0,
                    1 => n,
                    _ => rng.below(n + 1),
                };
                let hi = rng.coin();
                if k == 12 {
                    Op::Extend { t, vs, lo, hi }
                } else {
                    Op::FromIter { vs, lo, hi }
                }
            }
            _ => unreachable!(),
        };
        ops.push(op);
    }
    cfg.knobs.arith_next = 0;
    ops
}
