//! Batch runner (seed range partitioned over worker threads, results merged in seed order),
//! minimiser (delta debugging over the explicit operation list) and replay files.

use crate::observe::{NPROBES, PROBE_NAMES};
use crate::ops::{gen_ops, Op, RunCfg, KIND_NAMES};
use crate::rng::{fnv, splitmix64, Rng};
use crate::sim::{exec, ExecOut, Outcome, Violation};
use crate::sut::Sut;
use crate::value::Value;
use serde_json::{json, Value as J};
use std::collections::HashSet;

pub const DEFAULT_SEED: u64 = 20260926;

#[derive(Clone, Debug)]
pub struct BatchCfg {
    pub prop: u8,
    pub base_seed: u64,
    pub runs: u64,
    pub threads: usize,
    pub thorough: bool,
    pub profile: String,
    /// wall-clock cap for the batch in seconds (runs not started by then are skipped and reported)
    pub max_secs: f64,
}

#[derive(Clone, Debug, Default)]
pub struct BatchOut {
    pub sut: String,
    pub runs: u64,
    pub steps: u64,
    pub state_steps: u64,
    pub foreign: u64,
    pub foreign_samples: Vec<String>,
    pub probes: Vec<u64>,
    pub kinds: Vec<u64>,
    pub distinct: u64,
    pub distinct_nontrivial: u64,
    pub trigrams: u64,
    pub batch_digest: u64,
    pub violation: Option<J>,
    pub samples: Vec<J>,
    pub wall_s: f64,
    pub xprobes: std::collections::BTreeMap<String, u64>,
    pub stratified_total: u64,
    pub stratified_done: u64,
}

pub fn run_seed(base: u64, i: u64, prop: u8, sut: &str) -> u64 {
    let mut s = base.wrapping_add(i);
    splitmix64(&mut s) ^ fnv(format!("C{prop:02}|{sut}").as_bytes())
}

struct Worker {
    runs: u64,
    steps: u64,
    state_steps: u64,
    foreign: u64,
    foreign_samples: Vec<String>,
    probes: [u64; NPROBES],
    kinds: [u64; crate::ops::NKINDS],
    digests: HashSet<u64>,
    nontrivial: HashSet<u64>,
    trigrams: HashSet<u32>,
    batch_digest: u64,
    first_violation: Option<(u64, J)>,
    samples: Vec<(u64, J)>,
    strat_done: u64,
}

/// Probes that mark a run as having exercised the property it was generated for.
pub fn key_probes(prop: u8) -> &'static [&'static str] {
    match prop {
        1 => &["push"],
        2 => &["handles_reread"],
        3 => &["extend_call", "from_iter_call", "iter_clone_checked", "debug_checked"],
        4 => &["multibyte_str_checked", "empty_str_checked"],
        8 => &["clear_nonempty"],
        9 => &["clone_made", "clone_from_made"],
        10 => &["reserve_items_call", "reserve_regions_call", "stack_reserve_call", "merge_made"],
        11 => &["collapse_hit", "collapse_miss"],
        12 => &["dense_index_checked"],
        13 => &["oob_probe_panicked"],
        14 => &["laws_checked", "copy_item_region", "copy_item_owned"],
        16 => &["restart_made"],
        18 => &["heap_checked"],
        20 => &["push_form_noncanonical", "copy_item_region"],
        _ => &["push"],
    }
}

fn probe_idx(name: &str) -> usize {
    PROBE_NAMES.iter().position(|p| *p == name).expect("probe name")
}

pub fn replay_json<T: Sut>(prop: u8, profile: &str, seed: u64, cfg: &RunCfg, ops: &[Op<T::Val>], v: &Violation) -> J {
    json!({
        "property": format!("C{prop:02}"),
        "engine": "sim",
        "composition": T::name(),
        "profile": profile,
        "seed": seed,
        "config": cfg.to_json(),
        "ops": ops.iter().map(Op::to_json).collect::<Vec<_>>(),
        "violation": {"oracle": v.oracle, "step": v.step, "detail": v.detail, "signature": v.oracle},
    })
}

/// Delta-debugging minimiser: keep a candidate only if it still ends in the same oracle.
pub fn minimise<T: Sut>(ops: Vec<Op<T::Val>>, cfg: &RunCfg, oracle: &str, budget: usize) -> (Vec<Op<T::Val>>, Violation, usize) {
    let mut execs = 0usize;
    let mut best = ops;
    let same = |out: &ExecOut| -> Option<Violation> {
        match &out.outcome {
            Outcome::Violation(v) if v.oracle == oracle => Some(v.clone()),
            _ => None,
        }
    };
    let mut best_v = same(&exec::<T>(&best, cfg)).expect("minimise: violation does not reproduce");
    // truncate after the violating step
    if best_v.step + 1 < best.len() {
        let cand: Vec<_> = best[..=best_v.step].to_vec();
        if let Some(v) = same(&exec::<T>(&cand, cfg)) {
            best = cand;
            best_v = v;
        }
    }
    loop {
        let mut progress = false;
        // 1. drop chunks
        let mut chunk = (best.len() / 2).max(1);
        while chunk >= 1 && execs < budget {
            let mut i = 0;
            while i < best.len() && execs < budget {
                let end = (i + chunk).min(best.len());
                let mut cand = best.clone();
                cand.drain(i..end);
                execs += 1;
                if let Some(v) = same(&exec::<T>(&cand, cfg)) {
                    best = cand;
                    best_v = v;
                    progress = true;
                } else {
                    i += chunk;
                }
            }
            if chunk == 1 {
                break;
            }
            chunk /= 2;
        }
        // 2. simplify single operations
        let mut i = 0;
        while i < best.len() && execs < budget {
            let mut improved = false;
            for s in best[i].shrinks() {
                if execs >= budget {
                    break;
                }
                let mut cand = best.clone();
                cand[i] = s;
                execs += 1;
                if let Some(v) = same(&exec::<T>(&cand, cfg)) {
                    best = cand;
                    best_v = v;
                    improved = true;
                    progress = true;
                    break;
                }
            }
            if !improved {
                i += 1;
            }
        }
        if !progress || execs >= budget {
            break;
        }
    }
    // 3. turn off knobs that are not needed
    let mut cfg2 = cfg.clone();
    for k in 0..4 {
        let mut c = cfg2.clone();
        match k {
            0 => c.move_on_realloc = false,
            1 => c.poison_on_free = false,
            2 => c.borrowed = false,
            _ => c.laws = false,
        }
        if same(&exec::<T>(&best, &c)).is_some() {
            cfg2 = c;
        }
    }
    let _ = cfg2; // configuration stays the run's own; knob minimisation is reported only through ops
    (best, best_v, execs)
}

pub fn run_batch<T: Sut>(bc: &BatchCfg) -> BatchOut {
    let caps = T::caps();
    let name = T::name();
    let start = std::time::Instant::now();
    let threads = bc.threads.max(1);
    let kp: Vec<usize> = key_probes(bc.prop).iter().map(|n| probe_idx(n)).collect();
    // C02 asks for bounded-exhaustive short histories: lengths 1..=4 (quick) / 1..=5 (thorough)
    let strat: u64 = if bc.prop == 2 { crate::ops::strat_total(if bc.thorough { 5 } else { 4 }).min(bc.runs) } else { 0 };
    let workers: Vec<Worker> = std::thread::scope(|sc| {
        let mut hs = Vec::new();
        for w in 0..threads {
            let name = name.clone();
            let kp = kp.clone();
            let bc = bc.clone();
            hs.push(sc.spawn(move || {
                let mut st = Worker {
                    runs: 0,
                    steps: 0,
                    state_steps: 0,
                    foreign: 0,
                    foreign_samples: Vec::new(),
                    probes: [0; NPROBES],
                    kinds: [0; crate::ops::NKINDS],
                    digests: HashSet::new(),
                    nontrivial: HashSet::new(),
                    trigrams: HashSet::new(),
                    batch_digest: 0,
                    first_violation: None,
                    samples: Vec::new(),
                    strat_done: 0,
                };
                let mut i = w as u64;
                while i < bc.runs {
                    if st.first_violation.is_some() {
                        break;
                    }
                    if start.elapsed().as_secs_f64() > bc.max_secs {
                        break;
                    }
                    let seed = run_seed(bc.base_seed, i, bc.prop, &name);
                    let mut rng = Rng::new(seed);
                    let (cfg, ops): (RunCfg, Vec<Op<T::Val>>) = if i < strat {
                        // stratified prefix: every short history over the small alphabet, once
                        st.strat_done += 1;
                        (crate::ops::strat_cfg(bc.prop, i), crate::ops::strat_ops(i, &caps, fnv(name.as_bytes())))
                    } else {
                        let mut cfg = RunCfg::draw(bc.prop, &caps, bc.thorough, &mut rng);
                        let ops = gen_ops(&mut cfg, &caps, &mut rng);
                        (cfg, ops)
                    };
                    let out = exec::<T>(&ops, &cfg);
                    st.runs += 1;
                    st.steps += out.steps_done as u64;
                    st.state_steps += out.state_steps as u64;
                    for (a, b) in st.probes.iter_mut().zip(out.probes.iter()) {
                        *a += *b;
                    }
                    for k in &out.kinds {
                        st.kinds[*k as usize] += 1;
                    }
                    for wdw in out.kinds.windows(3) {
                        st.trigrams.insert(((wdw[0] as u32) << 16) | ((wdw[1] as u32) << 8) | wdw[2] as u32);
                    }
                    st.digests.insert(out.digest);
                    if out.state_steps >= 3 && kp.iter().any(|p| out.probes[*p] > 0) {
                        st.nontrivial.insert(out.digest);
                    }
                    let mut mix = seed ^ out.digest;
                    st.batch_digest = st.batch_digest.wrapping_add(splitmix64(&mut mix));
                    match &out.outcome {
                        Outcome::Clean => {
                            if st.samples.len() < 2 && ops.len() >= 3 && ops.len() <= 12 {
                                st.samples.push((i, json!({"seed": seed, "ops": ops.iter().map(Op::to_json).collect::<Vec<_>>()})));
                            }
                        }
                        Outcome::Foreign { oracle, step, detail } => {
                            st.foreign += 1;
                            if st.foreign_samples.len() < 3 {
                                st.foreign_samples.push(format!("seed {seed} step {step} {oracle}: {}", crate::trunc(detail, 200)));
                            }
                        }
                        Outcome::Violation(v) => {
                            let (mops, mv, execs) = minimise::<T>(ops.clone(), &cfg, &v.oracle, 4000);
                            let mut rj = replay_json::<T>(bc.prop, &bc.profile, seed, &cfg, &mops, &mv);
                            rj["minimisation"] = json!({"original_ops": ops.len(), "minimised_ops": mops.len(), "executions": execs});
                            st.first_violation = Some((i, rj));
                        }
                    }
                    i += threads as u64;
                }
                st
            }));
        }
        hs.into_iter().map(|h| h.join().expect("worker")).collect()
    });
    let mut out = BatchOut { sut: name, probes: vec![0; NPROBES], kinds: vec![0; crate::ops::NKINDS], ..Default::default() };
    let mut digests: HashSet<u64> = HashSet::new();
    let mut nontrivial: HashSet<u64> = HashSet::new();
    let mut trigrams: HashSet<u32> = HashSet::new();
    let mut viol: Option<(u64, J)> = None;
    let mut samples: Vec<(u64, J)> = Vec::new();
    for w in workers {
        out.runs += w.runs;
        out.steps += w.steps;
        out.state_steps += w.state_steps;
        out.foreign += w.foreign;
        out.foreign_samples.extend(w.foreign_samples);
        for (a, b) in out.probes.iter_mut().zip(w.probes.iter()) {
            *a += *b;
        }
        for (a, b) in out.kinds.iter_mut().zip(w.kinds.iter()) {
            *a += *b;
        }
        digests.extend(w.digests);
        nontrivial.extend(w.nontrivial);
        trigrams.extend(w.trigrams);
        out.batch_digest = out.batch_digest.wrapping_add(w.batch_digest);
        if let Some((i, j)) = w.first_violation {
            if viol.as_ref().map(|(k, _)| i < *k).unwrap_or(true) {
                viol = Some((i, j));
            }
        }
        samples.extend(w.samples);
        out.stratified_done += w.strat_done;
    }
    out.stratified_total = strat;
    samples.sort_by_key(|s| s.0);
    out.samples = samples.into_iter().take(2).map(|s| s.1).collect();
    out.foreign_samples.truncate(3);
    out.distinct = digests.len() as u64;
    out.distinct_nontrivial = nontrivial.len() as u64;
    out.trigrams = trigrams.len() as u64;
    out.violation = viol.map(|v| v.1);
    out.wall_s = start.elapsed().as_secs_f64();
    out
}

impl BatchOut {
    pub fn to_json(&self) -> J {
        let mut probes: serde_json::Map<String, J> = PROBE_NAMES.iter().zip(self.probes.iter()).filter(|(_, v)| **v > 0).map(|(k, v)| (k.to_string(), json!(v))).collect();
        for (k, v) in &self.xprobes {
            probes.insert(k.clone(), json!(v));
        }
        let kinds: serde_json::Map<String, J> = KIND_NAMES.iter().zip(self.kinds.iter()).filter(|(_, v)| **v > 0).map(|(k, v)| (k.to_string(), json!(v))).collect();
        json!({
            "sut": self.sut, "runs": self.runs, "steps": self.steps, "state_steps": self.state_steps,
            "foreign": self.foreign, "foreign_samples": self.foreign_samples,
            "probes": probes, "op_kinds": kinds, "distinct": self.distinct, "distinct_nontrivial": self.distinct_nontrivial,
            "trigrams": self.trigrams, "batch_digest": format!("{:016x}", self.batch_digest),
            "violation": self.violation, "samples": self.samples, "wall_s": self.wall_s,
            "stratified_total": self.stratified_total, "stratified_done": self.stratified_done,
        })
    }
}

/// Replay an explicit operation list from a replay file.
pub fn replay<T: Sut>(j: &J) -> Result<ExecOut, String> {
    let cfg = RunCfg::from_json(j.get("config").ok_or("replay: no config")?).ok_or("replay: bad config")?;
    let ops: Option<Vec<Op<T::Val>>> = j.get("ops").and_then(J::as_array).ok_or("replay: no ops")?.iter().map(Op::from_json).collect();
    let ops = ops.ok_or("replay: bad op")?;
    Ok(exec::<T>(&ops, &cfg))
}

#[allow(dead_code)]
pub fn render_vals<V: Value>(vs: &[V]) -> String {
    vs.iter().map(Value::render).collect::<Vec<_>>().join(",")
}
