//! flatsim — deterministic history simulator with in-contract fault injection for flatcontainer.
//! See /verif/DESIGN.md. Exit codes: 0 = ran (verdicts are in the JSON output), 2 = harness error.

mod acct;
mod alloc;
mod allocs;
mod catalog;
mod dict;
mod guard;
mod huff;
mod idx;
mod observe;
mod probe;
mod ops;
mod rng;
mod runner;
mod scen;
mod sim;
mod spec;
mod sut;
mod table;
mod twin;
mod usercodec;
mod value;

use serde_json::{json, Value as J};

#[global_allocator]
static GLOBAL: alloc::Tagged = alloc::Tagged;

pub fn trunc(s: &str, n: usize) -> String {
    if s.len() <= n {
        return s.to_string();
    }
    let mut cut = n;
    while !s.is_char_boundary(cut) {
        cut -= 1;
    }
    format!("{}…", &s[..cut])
}

fn arg(args: &[String], name: &str) -> Option<String> {
    args.iter().position(|a| a == name).and_then(|i| args.get(i + 1).cloned())
}

fn die(msg: &str) -> ! {
    eprintln!("flatsim: harness error: {msg}");
    std::process::exit(2);
}

pub struct DynScen {
    pub name: String,
    pub batch: Box<dyn Fn(&runner::BatchCfg) -> runner::BatchOut>,
    pub replay: Box<dyn Fn(&J) -> Result<scen::SOut, String>>,
}

fn dynscen<S: scen::Scenario + Clone + 'static>(s: S) -> DynScen {
    let (a, b) = (s.clone(), s.clone());
    DynScen { name: s.name(), batch: Box::new(move |bc| scen::run_scenario(&a, bc)), replay: Box::new(move |j| scen::replay_scenario(&b, j)) }
}

/// The property-specific engines and the scenarios each runs for a property.
fn special(engine: &str, prop: u8) -> Vec<DynScen> {
    match (engine, prop) {
        ("idx", 5) => (0..4).map(|c| dynscen(idx::IdxScen { container: c, prop: 5 })).collect(),
        ("idx", 16) => (0..4).map(|c| dynscen(idx::IdxScen { container: c, prop: 16 })).collect(),
        ("idx", 19) => [1u8, 2, 4, 5].iter().map(|c| dynscen(idx::IdxScen { container: *c, prop: 19 })).collect(),
        ("allocs", 17) => table::entries()
            .iter()
            .filter(|e| table::applies(17, e))
            .map(|e| {
                let (b, r) = (e.allocs_batch, e.allocs_replay);
                DynScen { name: e.name.clone(), batch: Box::new(move |bc| b(bc)), replay: Box::new(move |j| r(j)) }
            })
            .collect(),
        ("twin", 11) => {
            use catalog::*;
            use std::marker::PhantomData as PD;
            fn s_str(v: &String, out: &mut Vec<(usize, Vec<u8>, usize)>) {
                out.push((0, v.as_bytes().to_vec(), v.len()));
            }
            fn s_tup(v: &(u64, Vec<()>, String), out: &mut Vec<(usize, Vec<u8>, usize)>) {
                out.push((1, (v.1.len() as u64).to_le_bytes().to_vec(), 0));
                out.push((2, v.2.as_bytes().to_vec(), v.2.len()));
            }
            fn s_cols(v: &Vec<String>, out: &mut Vec<(usize, Vec<u8>, usize)>) {
                for (i, s) in v.iter().enumerate() {
                    out.push((i, s.as_bytes().to_vec(), s.len()));
                }
            }
            fn s_slice(v: &Vec<String>, out: &mut Vec<(usize, Vec<u8>, usize)>) {
                for s in v {
                    out.push((0, s.as_bytes().to_vec(), s.len()));
                }
            }
            vec![
                dynscen(twin::TwinScen::<CollapseStr, Str> { streams: s_str, byte_identity: true, skip_first_pair: false, _m: PD }),
                dynscen(twin::TwinScen::<TupCollapse, TupPlain> { streams: s_tup, byte_identity: true, skip_first_pair: false, _m: PD }),
                dynscen(twin::TwinScen::<ColsCollapseStr, ColsStr> { streams: s_cols, byte_identity: true, skip_first_pair: true, _m: PD }),
                dynscen(twin::TwinScen::<SliceCollapseStr, SliceStr> { streams: s_slice, byte_identity: true, skip_first_pair: false, _m: PD }),
                dynscen(twin::TwinScen::<CollapsePairsStr, PairsStrOpt> { streams: s_str, byte_identity: false, skip_first_pair: false, _m: PD }),
                dynscen(twin::TwinScen::<ColsCollapsePairsStr, ColsPairsStr> { streams: s_cols, byte_identity: false, skip_first_pair: false, _m: PD }),
                dynscen(twin::TwinScen::<SliceCollapsePairsStrOpt, SlicePairsStrOpt> { streams: s_slice, byte_identity: false, skip_first_pair: false, _m: PD }),
            ]
        }
        ("probe", 4) => vec![dynscen(probe::ProbeScen)],
        ("dict", 7) | ("dict", 10) | ("dict", 1) | ("dict", 2) => vec![dynscen(dict::DictScen::<flatcontainer::impls::codec::CodecRegion<flatcontainer::impls::codec::DictionaryCodec>> { prop, _m: std::marker::PhantomData })],
        ("dict", 4) => vec![dynscen(dict::DictScen::<flatcontainer::StringRegion<flatcontainer::impls::codec::CodecRegion<flatcontainer::impls::codec::DictionaryCodec>>> { prop, _m: std::marker::PhantomData })],
        ("huff", 6) | ("huff", 10) | ("huff", 1) | ("huff", 2) | ("huff", 14) | ("huff", 20) | ("huff", 9) | ("huff", 11) => vec![dynscen(huff::HuffScen { wide: false, prop }), dynscen(huff::HuffScen { wide: true, prop })],
        _ => Vec::new(),
    }
}

fn main() {
    guard::install_hook();
    let args: Vec<String> = std::env::args().collect();
    let cmd = args.get(1).map(String::as_str).unwrap_or("");
    match cmd {
        "list" => {
            let v: Vec<J> = table::entries().iter().map(|e| json!({"sut": e.name, "is_stack": e.caps.is_stack})).collect();
            println!("{}", serde_json::to_string_pretty(&v).unwrap());
        }
        "batch" => {
            let prop: u8 = arg(&args, "--prop").and_then(|s| s.trim_start_matches('C').parse().ok()).unwrap_or_else(|| die("--prop"));
            let runs: u64 = arg(&args, "--runs").and_then(|s| s.parse().ok()).unwrap_or(1000);
            let seed: u64 = arg(&args, "--seed").and_then(|s| s.parse().ok()).unwrap_or(runner::DEFAULT_SEED);
            let threads: usize = arg(&args, "--threads").and_then(|s| s.parse().ok()).unwrap_or(16);
            let thorough = arg(&args, "--tier").map(|t| t == "thorough").unwrap_or(false);
            let profile = arg(&args, "--profile").unwrap_or_else(|| "unknown".into());
            let max_secs: f64 = arg(&args, "--max-secs").and_then(|s| s.parse().ok()).unwrap_or(600.0);
            let only = arg(&args, "--sut");
            let out_path = arg(&args, "--out").unwrap_or_else(|| die("--out"));
            let start = std::time::Instant::now();
            let es: Vec<&table::Entry> = table::entries()
                .iter()
                .filter(|e| only.as_ref().map(|o| o == "all" || *o == e.name).unwrap_or(true))
                .filter(|e| table::applies(prop, e))
                .collect();
            if es.is_empty() {
                die("no composition applies");
            }
            let per = (runs / es.len() as u64).max(1);
            let mut batches = Vec::new();
            for (k, e) in es.iter().enumerate() {
                let left = max_secs - start.elapsed().as_secs_f64();
                if left <= 0.0 {
                    break;
                }
                // an even share of the remaining wall-clock budget for every composition still to run
                let share = (left / (es.len() - k) as f64).max(3.0);
                let bc = runner::BatchCfg { prop, base_seed: seed, runs: per, threads, thorough, profile: profile.clone(), max_secs: share };
                let out = (e.batch)(&bc);
                let stop = out.violation.is_some();
                batches.push(out.to_json());
                if stop {
                    break;
                }
            }
            let doc = json!({"engine": "sim", "prop": prop, "seed": seed, "profile": profile, "tier": if thorough {"thorough"} else {"quick"},
                             "compositions_applicable": es.iter().map(|e| e.name.clone()).collect::<Vec<_>>(),
                             "batches": batches, "wall_s": start.elapsed().as_secs_f64()});
            std::fs::write(&out_path, serde_json::to_string(&doc).unwrap()).unwrap_or_else(|e| die(&format!("write {out_path}: {e}")));
        }
        "replay" => {
            let path = arg(&args, "--file").unwrap_or_else(|| die("--file"));
            let text = std::fs::read_to_string(&path).unwrap_or_else(|e| die(&format!("read {path}: {e}")));
            let j: J = serde_json::from_str(&text).unwrap_or_else(|e| die(&format!("parse {path}: {e}")));
            let engine = j.get("engine").and_then(J::as_str).unwrap_or("sim");
            if engine != "sim" {
                let prop: u8 = j.get("property").and_then(J::as_str).and_then(|s| s.trim_start_matches('C').parse().ok()).unwrap_or_else(|| die("replay: property"));
                let comp = j.get("composition").and_then(J::as_str).unwrap_or_else(|| die("replay: no composition"));
                let scs = special(engine, prop);
                let sc = scs.iter().find(|s| s.name == comp).unwrap_or_else(|| die("replay: unknown scenario"));
                let out = (sc.replay)(&j).unwrap_or_else(|m| die(&m));
                let res = match &out.fail {
                    None => json!({"outcome": "clean"}),
                    Some(f) => json!({"outcome": "violation", "oracle": f.0, "step": f.1, "detail": f.2}),
                };
                match arg(&args, "--out") {
                    Some(p) => std::fs::write(&p, res.to_string()).unwrap_or_else(|e| die(&format!("write: {e}"))),
                    None => eprintln!("{res}"),
                }
                return;
            }
            let comp = j.get("composition").and_then(J::as_str).unwrap_or_else(|| die("replay: no composition"));
            let e = table::entries().iter().find(|e| e.name == comp).unwrap_or_else(|| die("replay: unknown composition"));
            let out = (e.replay)(&j).unwrap_or_else(|m| die(&m));
            let res = match &out.outcome {
                sim::Outcome::Clean => json!({"outcome": "clean"}),
                sim::Outcome::Violation(v) => json!({"outcome": "violation", "oracle": v.oracle, "step": v.step, "detail": v.detail}),
                sim::Outcome::Foreign { oracle, step, detail } => json!({"outcome": "foreign", "oracle": oracle, "step": step, "detail": detail}),
            };
            let out_path = arg(&args, "--out");
            match out_path {
                Some(p) => std::fs::write(&p, res.to_string()).unwrap_or_else(|e| die(&format!("write: {e}"))),
                None => eprintln!("{res}"),
            }
        }
        "idx" | "huff" | "dict" | "allocs" | "twin" | "probe" => {
            let prop: u8 = arg(&args, "--prop").and_then(|s| s.trim_start_matches('C').parse().ok()).unwrap_or_else(|| die("--prop"));
            let runs: u64 = arg(&args, "--runs").and_then(|s| s.parse().ok()).unwrap_or(1000);
            let seed: u64 = arg(&args, "--seed").and_then(|s| s.parse().ok()).unwrap_or(runner::DEFAULT_SEED);
            let threads: usize = arg(&args, "--threads").and_then(|s| s.parse().ok()).unwrap_or(16);
            let thorough = arg(&args, "--tier").map(|t| t == "thorough").unwrap_or(false);
            let profile = arg(&args, "--profile").unwrap_or_else(|| "unknown".into());
            let max_secs: f64 = arg(&args, "--max-secs").and_then(|s| s.parse().ok()).unwrap_or(600.0);
            let only = arg(&args, "--sut");
            let out_path = arg(&args, "--out").unwrap_or_else(|| die("--out"));
            let start = std::time::Instant::now();
            let scs: Vec<DynScen> = special(cmd, prop).into_iter().filter(|s| only.as_ref().map(|o| *o == s.name).unwrap_or(true)).collect();
            if scs.is_empty() {
                die("no scenario for this engine/property");
            }
            let per = (runs / scs.len() as u64).max(1);
            let mut batches = Vec::new();
            for (k, sc) in scs.iter().enumerate() {
                let left = max_secs - start.elapsed().as_secs_f64();
                if left <= 0.0 {
                    break;
                }
                let share = (left / (scs.len() - k) as f64).max(3.0);
                let bc = runner::BatchCfg { prop, base_seed: seed, runs: per, threads, thorough, profile: profile.clone(), max_secs: share };
                let out = (sc.batch)(&bc);
                let stop = out.violation.is_some();
                batches.push(out.to_json());
                if stop {
                    break;
                }
            }
            let doc = json!({"engine": cmd, "prop": prop, "seed": seed, "profile": profile, "tier": if thorough {"thorough"} else {"quick"},
                             "compositions_applicable": scs.iter().map(|e| e.name.clone()).collect::<Vec<_>>(),
                             "batches": batches, "wall_s": start.elapsed().as_secs_f64()});
            std::fs::write(&out_path, serde_json::to_string(&doc).unwrap()).unwrap_or_else(|e| die(&format!("write {out_path}: {e}")));
        }
        _ => die("usage: flatsim list | batch|idx|huff|dict|allocs|twin --prop Cxx --out FILE [...] | replay --file F"),
    }
}
