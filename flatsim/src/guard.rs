//! Panic capture: every call into the library goes through `catch`.
//!
//! A quiet panic hook records message and source location in a thread-local so the classifier
//! can tell an in-contract refusal / fail-stop from an unexpected panic and can build finding
//! signatures from the location.

use std::cell::RefCell;
use std::panic::{catch_unwind, AssertUnwindSafe};

#[derive(Clone, Debug, Default)]
pub struct PanicRec {
    pub msg: String,
    pub file: String,
    pub line: u32,
}

impl PanicRec {
    /// `file:line` with the /repo prefix stripped (stable across checkouts).
    pub fn loc(&self) -> String {
        let f = self
            .file
            .rsplit_once("/src/")
            .map(|(_, b)| format!("src/{b}"))
            .unwrap_or_else(|| self.file.clone());
        format!("{f}:{}", self.line)
    }
    pub fn in_crate(&self) -> bool {
        // Panic raised by a source line of flatcontainer (as opposed to std / harness).
        self.file.contains("/repo/src/") || self.file.starts_with("src/")
            || self.file.contains("flatcontainer")
            || std::env::var("FLATSIM_REPO").map(|r| self.file.starts_with(&r)).unwrap_or(false)
    }
    pub fn short(&self) -> String {
        let mut m = self.msg.clone();
        if m.len() > 160 {
            let mut cut = 160;
            while !m.is_char_boundary(cut) {
                cut -= 1;
            }
            m.truncate(cut);
            m.push('…');
        }
        format!("panic at {}: {}", self.loc(), m)
    }
}

thread_local! {
    static LAST: RefCell<Option<PanicRec>> = const { RefCell::new(None) };
}

pub fn install_hook() {
    std::panic::set_hook(Box::new(|info| {
        let msg = if let Some(s) = info.payload().downcast_ref::<&str>() {
            (*s).to_string()
        } else if let Some(s) = info.payload().downcast_ref::<String>() {
            s.clone()
        } else {
            "<non-string panic payload>".to_string()
        };
        let (file, line) = info
            .location()
            .map(|l| (l.file().to_string(), l.line()))
            .unwrap_or_default();
        let _ = LAST.try_with(|l| {
            if let Ok(mut l) = l.try_borrow_mut() {
                *l = Some(PanicRec { msg, file, line });
            }
        });
    }));
}

/// Run `f`, catching any panic. Allocation ownership is restored by the caller's scope guards.
pub fn catch<T>(f: impl FnOnce() -> T) -> Result<T, PanicRec> {
    LAST.with(|l| *l.borrow_mut() = None);
    match catch_unwind(AssertUnwindSafe(f)) {
        Ok(v) => Ok(v),
        Err(payload) => {
            // Dropping the payload must not itself be observable.
            drop(payload);
            let rec = LAST.with(|l| l.borrow_mut().take()).unwrap_or_default();
            Err(rec)
        }
    }
}
