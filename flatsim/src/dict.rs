//! Engine for C07: the dictionary-coded byte region across merge generations.

use crate::guard::catch;
use crate::rng::{splitmix64, Digest, Rng};
use crate::scen::{SOut, Scenario};
use flatcontainer::impls::codec::{CodecRegion, DictionaryCodec};
use flatcontainer::{Push, Region, StringRegion};
use serde_json::{json, Value as J};
use std::collections::BTreeMap;

/// The region under test: the byte-level codec region, or a string region on top of it (C04).
pub trait DictReg: Default + 'static {
    const STR: bool;
    /// what the region will actually be asked to store for an operation's byte string
    fn input(bytes: &[u8]) -> Vec<u8>;
    fn push_bytes(&mut self, input: &[u8]) -> (usize, usize);
    /// read back as bytes; Err if a handed-out &str is not valid UTF-8
    fn read(&self, idx: (usize, usize)) -> Result<Vec<u8>, String>;
    fn merge<'a>(srcs: impl Iterator<Item = &'a Self> + Clone) -> Self;
    fn clear_reg(&mut self);
    fn used(&self) -> usize;
}

impl DictReg for CodecRegion<DictionaryCodec> {
    const STR: bool = false;
    fn input(bytes: &[u8]) -> Vec<u8> {
        bytes.to_vec()
    }
    fn push_bytes(&mut self, input: &[u8]) -> (usize, usize) {
        self.push(input)
    }
    fn read(&self, idx: (usize, usize)) -> Result<Vec<u8>, String> {
        Ok(self.index(idx).to_vec())
    }
    fn merge<'a>(srcs: impl Iterator<Item = &'a Self> + Clone) -> Self {
        Self::merge_regions(srcs)
    }
    fn clear_reg(&mut self) {
        self.clear()
    }
    fn used(&self) -> usize {
        let mut u = 0;
        self.heap_size(|a, _| u += a);
        u
    }
}

impl DictReg for StringRegion<CodecRegion<DictionaryCodec>> {
    const STR: bool = true;
    fn input(bytes: &[u8]) -> Vec<u8> {
        // every byte string maps to a valid string (Latin-1 reading), whose UTF-8 bytes are the input
        bytes.iter().map(|b| *b as char).collect::<String>().into_bytes()
    }
    fn push_bytes(&mut self, input: &[u8]) -> (usize, usize) {
        self.push(std::str::from_utf8(input).expect("harness builds valid strings"))
    }
    fn read(&self, idx: (usize, usize)) -> Result<Vec<u8>, String> {
        let s: &str = self.index(idx);
        let b = s.as_bytes();
        match std::str::from_utf8(b) {
            Ok(_) => Ok(b.to_vec()),
            Err(_) => Err(format!("&str with invalid UTF-8 bytes {:02x?}", &b[..b.len().min(24)])),
        }
    }
    fn merge<'a>(srcs: impl Iterator<Item = &'a Self> + Clone) -> Self {
        Self::merge_regions(srcs)
    }
    fn clear_reg(&mut self) {
        self.clear()
    }
    fn used(&self) -> usize {
        let mut u = 0;
        self.heap_size(|a, _| u += a);
        u
    }
}

#[derive(Clone, Debug)]
pub enum DOp {
    Push { t: usize, bytes: Vec<u8> },
    /// deterministic bulk training: kind 0 small skewed pool, 1 every first byte observed,
    /// 2 more than 1024 distinct strings (summary compaction), 3 one dominant string
    Train { t: usize, kind: u8, n: u32, seed: u32 },
    Merge { srcs: Vec<usize> },
    Clear { t: usize },
    Copy { src: usize, h: usize, dst: usize },
}

pub struct DictScen<G: DictReg> {
    pub prop: u8,
    pub _m: std::marker::PhantomData<fn() -> G>,
}
impl<G: DictReg> Clone for DictScen<G> {
    fn clone(&self) -> Self {
        DictScen { prop: self.prop, _m: std::marker::PhantomData }
    }
}

struct Dr<G: DictReg> {
    r: G,
    coded: bool,
    accept_first: [bool; 256],
    /// statistics the dictionary of this region was built from (sum over the merge sources)
    dict_counts: BTreeMap<Vec<u8>, u64>,
    dict_total: u64,
    exact: bool,
    /// own statistics since creation / merge / clear
    counts: BTreeMap<Vec<u8>, u64>,
    first_seen: [bool; 256],
    pushes: u64,
    empties: u64,
    dict_empties: u64,
    /// whether every source summary stayed below its compaction threshold
    own_exact: bool,
    model: Vec<((usize, usize), Vec<u8>)>,
    generation: u32,
}

fn fresh<G: DictReg>() -> Dr<G> {
    Dr { r: Default::default(), coded: false, accept_first: [false; 256], dict_counts: BTreeMap::new(), dict_total: 0, exact: true, counts: BTreeMap::new(), first_seen: [false; 256], pushes: 0, empties: 0, dict_empties: 0, own_exact: true, model: Vec::new(), generation: 0 }
}

fn used<G: DictReg>(r: &G) -> usize {
    r.used()
}

fn m_string(i: usize) -> Vec<u8> {
    vec![b'm', (i % 256) as u8, b'0' + (i / 256) as u8]
}

fn long_string(first: u8, len: usize) -> Vec<u8> {
    let mut v = vec![first];
    while v.len() < len {
        v.extend_from_slice("é日😀x".as_bytes());
    }
    v.truncate(len);
    v
}

fn train_strings(kind: u8, n: u32, seed: u32) -> Vec<Vec<u8>> {
    let mut st = seed as u64 ^ 0xD1C7;
    let mut out = Vec::new();
    let n = n.max(1) as usize;
    match kind {
        0 => {
            // pool of n strings, string i pushed about 2^(n-i) times (capped)
            let pool: Vec<Vec<u8>> = (0..n.min(12)).map(|i| {
                let len = 1 + (splitmix64(&mut st) % 6) as usize;
                let first = b'a' + (i as u8 % 20);
                let mut v = vec![first];
                for _ in 1..len {
                    v.push((splitmix64(&mut st) % 256) as u8);
                }
                v
            }).collect();
            for (i, s) in pool.iter().enumerate() {
                let reps = 1usize << (pool.len() - 1 - i).min(7);
                for _ in 0..reps {
                    out.push(s.clone());
                }
            }
        }
        1 => {
            for b in 0..=255u8 {
                out.push(vec![b, (splitmix64(&mut st) % 256) as u8]);
            }
            for _ in 0..(n % 40) {
                out.push(vec![7, 7, 7]);
            }
        }
        2 => {
            // > 1024 distinct strings with few first bytes, plus a heavy hitter
            let distinct = 1030 + (n as usize % 900);
            for i in 0..distinct {
                out.push(vec![b'k', (i % 256) as u8, (i / 256) as u8, 1]);
                for _ in 0..4 {
                    out.push(b"heavy".to_vec());
                }
            }
        }
        4 => {
            // a crowded dictionary: ~300 distinct strings sharing one first byte, each pushed 2-3 times
            for i in 0..(260 + n as usize % 60) {
                let st = m_string(i);
                for _ in 0..(2 + i % 2) {
                    out.push(st.clone());
                }
            }
        }
        5 => {
            // entries longer than 255 bytes ranked among short ones
            let long1 = long_string(b'L', 300 + n as usize % 50);
            let long2 = long_string(b'M', 256);
            for (st, reps) in [(long1, 6), (b"mid".to_vec(), 5), (long2, 4), (b"abc".to_vec(), 3), (long_string(b'N', 255), 2), (b"zz".to_vec(), 2)] {
                for _ in 0..reps {
                    out.push(st.clone());
                }
            }
        }
        _ => {
            // one dominant string (> 3/4 of all pushes) among noise
            let noise = 3 + n as usize % 40;
            for i in 0..noise {
                out.push(vec![b'n', i as u8]);
            }
            for _ in 0..(noise * 4 + 1) {
                out.push(b"dominant".to_vec());
            }
        }
    }
    out
}

impl<G: DictReg> DictScen<G> {
    fn run(&self, ops: &[DOp]) -> SOut {
        let mut out = SOut::default();
        let mut dig = Digest::default();
        let mut pop: Vec<Dr<G>> = vec![fresh()];
        let prop = self.prop;
        let allowed = move |o: &str| -> bool {
            match prop {
                1 => matches!(o, "just-pushed-item-differs" | "just-pushed-differs" | "push-refused-inside-statistics" | "refused-representable-input" | "merge-panicked"),
                2 => matches!(o, "earlier-item-differs"),
                // C04 is about the strings handed out: read-back oracles only
                4 => matches!(o, "just-pushed-differs" | "earlier-item-differs"),
                _ => true,
            }
        };
        let fail = move |o: &str, step: usize, d: String| -> Option<(String, usize, String)> {
            if allowed(o) { Some((format!("C{prop:02}/dict/{o}"), step, d)) } else { Some((format!("foreign/{o}"), step, d)) }
        };

        macro_rules! reread {
            ($ci:expr, $all:expr, $step:expr) => {{
                let ci: usize = $ci;
                let n = pop[ci].model.len();
                for mi in 0..n {
                    if !($all || mi + 1 == n || n <= 16 || mi % 32 == $step % 32) {
                        continue;
                    }
                    let (idx, bytes) = &pop[ci].model[mi];
                    let r = catch(|| pop[ci].r.read(*idx));
                    let bad = match r {
                        Ok(Ok(got)) if got == *bytes => None,
                        Ok(Ok(got)) => Some(format!("read {:?} expected {:?}", crate::trunc(&format!("{:?}", got), 120), crate::trunc(&format!("{:?}", bytes), 120))),
                        Ok(Err(e)) => Some(e),
                        Err(p) => Some(format!("read panicked: {}", p.short())),
                    };
                    if let Some(d) = bad {
                        let what = if mi + 1 == n { "just-pushed-differs" } else { "earlier-item-differs" };
                        out.fail = fail(what, $step, format!("region generation {} ({}), item {mi} of {n} at {:?}: {d}", pop[ci].generation, if pop[ci].coded { "coded" } else { "default" }, idx));
                        return out;
                    }
                    out.hit("items_read");
                }
            }};
        }

        // returns true if stored
        macro_rules! do_push {
            ($ci:expr, $bytes:expr, $step:expr, $check_economy:expr) => {{
                let ci: usize = $ci;
                let converted: Vec<u8> = G::input($bytes);
                let bytes: &Vec<u8> = &converted;
                let legit_refusal = pop[ci].coded && !bytes.is_empty() && !pop[ci].accept_first[bytes[0] as usize];
                let before = used(&pop[ci].r);
                let r = {
                    let reg = &mut pop[ci].r;
                    catch(|| reg.push_bytes(bytes.as_slice()))
                };
                match r {
                    Err(p) => {
                        if !legit_refusal {
                            out.fail = fail("refused-representable-input", $step, format!("push of {:?} into a {} region (generation {}) panicked although its first byte cannot be a dictionary code: {}", crate::trunc(&format!("{:?}", bytes), 120), if pop[ci].coded { "coded" } else { "default/cleared" }, pop[ci].generation, p.short()));
                            return out;
                        }
                        out.hit("refusal_fired");
                        pop.remove(ci);
                        if pop.is_empty() {
                            pop.push(fresh());
                        }
                        false
                    }
                    Ok(idx) => {
                        let after = used(&pop[ci].r);
                        let cost = after - before;
                        let d = &mut pop[ci];
                        d.pushes += 1;
                        if let Some(f) = bytes.first() {
                            d.first_seen[*f as usize] = true;
                            *d.counts.entry(bytes.clone()).or_insert(0) += 1;
                            if d.counts.len() > 512 {
                                d.own_exact = false;
                            }
                        }
                        if bytes.is_empty() {
                            out.hit("empty_string");
                            d.empties += 1;
                        }
                        if d.coded && cost == 1 && bytes.len() > 1 {
                            out.hit("one_byte_code_used");
                        }
                        if legit_refusal {
                            out.hit("unobserved_first_byte_accepted");
                        }
                        // economy
                        if $check_economy && d.coded && !bytes.is_empty() {
                            let free = 256 - d.accept_first.iter().filter(|b| **b).count();
                            let cx = d.dict_counts.get(bytes).copied().unwrap_or(0);
                            let must = if cx == 0 {
                                false
                            } else if d.exact {
                                // the empty string counts as a competitor (conservative)
                                let rank = d.dict_counts.values().filter(|c| **c >= cx).count() + (d.dict_empties >= cx) as usize;
                                rank <= free
                            } else {
                                free >= 1 && (cx as u128) * 4 > (d.dict_total as u128) * 3
                            };
                            if must {
                                out.hit(if d.exact { "economy_exact_checked" } else { "economy_compacting_checked" });
                                if cost != 1 {
                                    out.fail = fail("frequent-string-not-one-byte", $step, format!("{:?} was pushed {cx} times into the sources ({} pushes, {} distinct, {free} free codes, {} regime) but costs {cost} stored bytes", crate::trunc(&format!("{:?}", bytes), 80), d.dict_total, d.dict_counts.len(), if d.exact { "exact" } else { "compacting" }));
                                    return out;
                                }
                            }
                        }
                        d.model.push((idx, bytes.clone()));
                        dig.u64(idx.0 as u64);
                        dig.u64(idx.1 as u64);
                        true
                    }
                }
            }};
        }

        for (step, op) in ops.iter().enumerate() {
            out.steps += 1;
            match op {
                DOp::Push { t, bytes } => {
                    let ci = t % pop.len();
                    if do_push!(ci, bytes, step, true) {
                        reread!(ci, false, step);
                    }
                }
                DOp::Train { t, kind, n, seed } => {
                    let ci = t % pop.len();
                    let strings = train_strings(*kind, *n, *seed);
                    let mut alive = true;
                    for s in &strings {
                        if !do_push!(ci, s, step, false) {
                            alive = false;
                            break;
                        }
                    }
                    if alive {
                        out.hit("train");
                        reread!(ci, false, step);
                    }
                }
                DOp::Clear { t } => {
                    let ci = t % pop.len();
                    if let Err(p) = catch(|| pop[ci].r.clear_reg()) {
                        out.fail = fail("clear-panicked", step, p.short());
                        return out;
                    }
                    let g = pop[ci].generation;
                    if pop[ci].coded {
                        out.hit("clear_coded");
                    }
                    pop[ci] = Dr { r: std::mem::take(&mut pop[ci].r), generation: g, ..fresh() };
                    dig.str("clear");
                }
                DOp::Copy { src, h, dst } => {
                    if pop.len() < 2 {
                        continue;
                    }
                    let si = src % pop.len();
                    let mut di = dst % pop.len();
                    if di == si {
                        di = (si + 1) % pop.len();
                    }
                    if pop[si].model.is_empty() {
                        continue;
                    }
                    let mi = h % pop[si].model.len();
                    let bytes = pop[si].model[mi].1.clone();
                    // the read item of a codec region is a plain byte slice
                    let got = catch(|| pop[si].r.read(pop[si].model[mi].0));
                    match got {
                        Ok(Ok(g)) if g == bytes => {
                            // `g` is already in stored form: feed it through the identity of the byte mode
                            let raw: Vec<u8> = if G::STR { String::from_utf8_lossy(&g).chars().map(|c| c as u32 as u8).collect() } else { g.clone() };
                            if do_push!(di, &raw, step, true) {
                                out.hit("copy");
                                let di2 = di.min(pop.len() - 1);
                                reread!(di2, false, step);
                            }
                        }
                        _ => {
                            out.fail = fail("earlier-item-differs", step, format!("source item {mi} no longer reads {:?}", bytes));
                            return out;
                        }
                    }
                }
                DOp::Merge { srcs } => {
                    if pop.len() >= 6 {
                        pop.remove(0);
                    }
                    let idxs: Vec<usize> = srcs.iter().map(|s| s % pop.len()).collect();
                    let r = catch(|| G::merge(idxs.iter().map(|i| &pop[*i].r)));
                    let reg = match r {
                        Ok(r) => r,
                        Err(p) => {
                            out.fail = fail("merge-panicked", step, p.short());
                            return out;
                        }
                    };
                    let mut d = fresh();
                    d.r = reg;
                    d.coded = true;
                    d.generation = idxs.iter().map(|i| pop[*i].generation).max().unwrap_or(0) + 1;
                    for i in &idxs {
                        let s = &pop[*i];
                        for k in 0..256 {
                            d.accept_first[k] |= s.first_seen[k];
                        }
                        for (k, v) in &s.counts {
                            *d.dict_counts.entry(k.clone()).or_insert(0) += v;
                        }
                        d.dict_total += s.pushes;
                        d.dict_empties += s.empties;
                        d.exact &= s.own_exact;
                    }
                    if d.dict_counts.len() > 512 {
                        d.exact = false;
                    }
                    out.hit("merge");
                    if idxs.is_empty() {
                        out.hit("merge_zero_sources");
                    }
                    if d.generation >= 2 {
                        out.hit("generation_2plus");
                    }
                    if d.generation >= 3 {
                        out.hit("generation_3plus");
                    }
                    if !d.exact {
                        out.hit("summary_compacted");
                    }
                    if d.accept_first.iter().all(|b| *b) {
                        out.hit("no_free_codes");
                    }
                    dig.u64(d.dict_counts.len() as u64);
                    pop.push(d);
                }
            }
        }
        for ci in 0..pop.len() {
            reread!(ci, true, ops.len());
        }
        out.digest = dig.0;
        out.nontrivial = out.probes.contains_key("merge") && out.probes.get("items_read").copied().unwrap_or(0) >= 3;
        out
    }
}

impl<G: DictReg> Scenario for DictScen<G> {
    type Op = DOp;
    fn name(&self) -> String {
        if G::STR { "StringRegion<CodecRegion<DictionaryCodec>>".into() } else { "CodecRegion<DictionaryCodec>".into() }
    }
    fn engine(&self) -> &'static str {
        "dict"
    }
    fn gen(&self, rng: &mut Rng, thorough: bool, _index: u64) -> Vec<DOp> {
        let n = 3 + rng.below(if thorough { 80 } else { 30 });
        let heavy = rng.chance(1, if thorough { 6 } else { 12 });
        let mut ops = Vec::new();
        // structured multi-generation openings (the random tail follows)
        match rng.below(if thorough { 12 } else { 24 }) {
            0 => {
                // a string coded in generation 2 that falls out of a crowded generation-3 dictionary
                let x = vec![*rng.pick(&[b'x', b'A', 200u8, 3u8]), b'0'];
                for _ in 0..5 {
                    ops.push(DOp::Push { t: 0, bytes: x.clone() });
                }
                ops.push(DOp::Merge { srcs: vec![0] });
                ops.push(DOp::Push { t: 1, bytes: x.clone() });
                ops.push(DOp::Train { t: 1, kind: 4, n: rng.below(1000) as u32, seed: 1 });
                ops.push(DOp::Merge { srcs: vec![1] });
                ops.push(DOp::Push { t: 2, bytes: x.clone() });
                for _ in 0..6 {
                    ops.push(DOp::Push { t: 2, bytes: m_string(rng.below(300)) });
                }
            }
            1 => {
                // a full 256-slot table through two generations
                ops.push(DOp::Train { t: 0, kind: 4, n: rng.below(1000) as u32, seed: 2 });
                ops.push(DOp::Merge { srcs: vec![0] });
                for i in 0..40 {
                    ops.push(DOp::Push { t: 1, bytes: m_string((i * 7 + rng.below(7)) % 300) });
                }
                ops.push(DOp::Push { t: 1, bytes: vec![255, 1] });
                ops.push(DOp::Merge { srcs: vec![1] });
                for i in 0..40 {
                    ops.push(DOp::Push { t: 2, bytes: m_string((i * 7 + rng.below(7)) % 300) });
                }
            }
            2 => {
                // dictionary entries longer than 255 bytes
                let k = rng.below(1000) as u32;
                ops.push(DOp::Train { t: 0, kind: 5, n: k, seed: 3 });
                ops.push(DOp::Merge { srcs: vec![0] });
                for st in train_strings(5, k, 3) {
                    if rng.chance(1, 3) {
                        ops.push(DOp::Push { t: 1, bytes: st });
                    }
                }
            }
            _ => {}
        }
        // a small pool of strings this run keeps re-pushing (heavy hitters, entries, prefixes, tags)
        let pool: Vec<Vec<u8>> = (0..1 + rng.below(6))
            .map(|_| {
                let len = rng.small_len(6);
                (0..len).map(|_| if rng.coin() { rng.below(4) as u8 } else { *rng.pick(&[b'a', b'b', 0, 1, 255, b'k', b'n', b'h', b'd']) }).collect()
            })
            .collect();
        for _ in 0..n {
            let t = rng.below(8);
            match rng.weighted(&[60, 6, 12, 4, 6]) {
                0 => {
                    let bytes: Vec<u8> = match rng.below(8) {
                        0 => {
                            if rng.coin() {
                                Vec::new()
                            } else {
                                rng.pick(&[b"heavy".to_vec(), b"dominant".to_vec()]).clone()
                            }
                        }
                        1 | 2 | 3 | 4 => rng.pick(&pool).clone(),
                        5 => {
                            // prefix / extension of a pool string
                            let mut b = rng.pick(&pool).clone();
                            if rng.coin() {
                                b.push(rng.below(256) as u8);
                            } else {
                                b.truncate(b.len() / 2);
                            }
                            b
                        }
                        6 => {
                            if rng.coin() {
                                vec![rng.below(256) as u8]
                            } else {
                                m_string(rng.below(300))
                            }
                        }
                        _ => {
                            let len = rng.small_len(8);
                            (0..len).map(|_| rng.below(256) as u8).collect()
                        }
                    };
                    ops.push(DOp::Push { t, bytes });
                }
                1 => {
                    let kind = if heavy { rng.below(6) as u8 } else { *rng.pick(&[0u8, 0, 1, 3, 3, 4, 5]) };
                    ops.push(DOp::Train { t, kind, n: rng.below(1000) as u32, seed: rng.below(1 << 20) as u32 });
                }
                2 => {
                    let ns = rng.weighted(&[1, 5, 2, 1, 1]);
                    ops.push(DOp::Merge { srcs: (0..ns).map(|_| rng.below(8)).collect() });
                }
                3 => ops.push(DOp::Clear { t }),
                _ => ops.push(DOp::Copy { src: t, h: rng.below(1 << 16), dst: rng.below(8) }),
            }
        }
        ops
    }
    fn exec(&self, ops: &[DOp]) -> SOut {
        let mut out = {
        self.run(ops)
    };
        if let Some(f) = &out.fail {
            if f.0.starts_with("foreign/") {
                out.foreign = Some(f.0.clone());
                out.fail = None;
            }
        }
        out
    }
    fn op_json(&self, op: &DOp) -> J {
        match op {
            DOp::Push { t, bytes } => json!({"op":"Push","t":t,"bytes":bytes}),
            DOp::Train { t, kind, n, seed } => json!({"op":"Train","t":t,"kind":kind,"n":n,"seed":seed}),
            DOp::Merge { srcs } => json!({"op":"Merge","srcs":srcs}),
            DOp::Clear { t } => json!({"op":"Clear","t":t}),
            DOp::Copy { src, h, dst } => json!({"op":"Copy","src":src,"h":h,"dst":dst}),
        }
    }
    fn op_from_json(&self, j: &J) -> Option<DOp> {
        let u = |k: &str| j.get(k).and_then(J::as_u64).map(|x| x as usize);
        Some(match j.get("op")?.as_str()? {
            "Push" => DOp::Push { t: u("t")?, bytes: j.get("bytes")?.as_array()?.iter().map(|x| x.as_u64().map(|y| y as u8)).collect::<Option<Vec<_>>>()? },
            "Train" => DOp::Train { t: u("t")?, kind: u("kind")? as u8, n: u("n")? as u32, seed: u("seed")? as u32 },
            "Merge" => DOp::Merge { srcs: j.get("srcs")?.as_array()?.iter().map(|x| x.as_u64().map(|y| y as usize)).collect::<Option<Vec<_>>>()? },
            "Clear" => DOp::Clear { t: u("t")? },
            "Copy" => DOp::Copy { src: u("src")?, h: u("h")?, dst: u("dst")? },
            _ => return None,
        })
    }
    fn shrink(&self, op: &DOp) -> Vec<DOp> {
        match op {
            DOp::Push { t, bytes } if !bytes.is_empty() => {
                let mut v = vec![DOp::Push { t: *t, bytes: bytes[..bytes.len() - 1].to_vec() }, DOp::Push { t: *t, bytes: bytes[..1].to_vec() }];
                if bytes.iter().any(|b| *b != b'a') {
                    v.push(DOp::Push { t: *t, bytes: bytes.iter().map(|_| b'a').collect() });
                }
                v
            }
            DOp::Train { t, kind, n, seed } if *kind != 0 || *n > 1 => vec![DOp::Train { t: *t, kind: 0, n: 2, seed: *seed }, DOp::Train { t: *t, kind: *kind, n: n / 2, seed: *seed }],
            DOp::Merge { srcs } if srcs.len() > 1 => vec![DOp::Merge { srcs: srcs[..1].to_vec() }],
            _ => vec![],
        }
    }
}
