#!/bin/bash
# Determinism self-test: the same seeds must give the same batch digests for every engine,
# at different worker counts and in repeated processes, in both build profiles.
# usage: selftest/determinism.sh [runs]   (after ./check build)
set -u
cd "$(dirname "$0")/.."
RUNS=${1:-20000}
fail=0
for prof in checked wrapping; do
  B=flatsim/target/$prof-td/$prof/flatsim
  for spec in "batch C02" "batch C03" "batch C09" "batch C10" "batch C16" "batch C20" "batch C13" "batch C14" "batch C18" "idx C05" "idx C19" "idx C16" "huff C06" "huff C11" "huff C14" "dict C07" "dict C04" "allocs C17" "twin C11" "probe C04"; do
    set -- $spec
    ref=""
    for t in 1 5 16 16; do
      out=$(mktemp)
      $B $1 --prop $2 --runs $RUNS --threads $t --profile $prof --seed 4242 --out $out >/dev/null 2>&1 || { echo "HARNESS ERROR $spec"; exit 2; }
      d=$(python3 -c "import json,sys; d=json.load(open('$out')); print(' '.join(b['batch_digest']+':'+str(b['runs']) for b in d['batches']))")
      rm -f $out
      if [ -z "$ref" ]; then ref="$d"; elif [ "$ref" != "$d" ]; then echo "NONDETERMINISM $prof $spec threads=$t"; fail=1; fi
    done
    echo "ok $prof $spec"
  done
done
exit $fail
