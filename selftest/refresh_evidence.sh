#!/bin/bash
# refresh_evidence.sh: run every registered quick check once on the current (clean) tree; evidence/<id>.json is rewritten.
cd "$(dirname "$0")/.."
git -C /repo diff --quiet || { echo "/repo has uncommitted changes"; exit 2; }
rc=0
for p in C01 C02 C03 C04 C05 C06 C07 C08 C09 C10 C11 C12 C13 C14 C16 C17 C18 C19 C20; do
  out=$(./check $p --tier quick 2>&1); r=$?
  echo "$p exit=$r $(echo "$out" | tail -1 | cut -c1-200)"
  [ $r -ne 0 ] && rc=1
done
exit $rc
