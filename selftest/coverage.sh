#!/bin/bash
# coverage.sh [divisor]: reach measure over the real code. Builds flatsim (checked profile) with
# -C instrument-coverage on the nightly toolchain (llvm-tools live there), runs every engine of every
# registered check at 1/divisor of its quick run count (default 30), merges the profiles and prints
# llvm-cov's per-file report for /repo/src plus every source line that was compiled in but never executed.
# Scratch output goes to $COV_DIR (default /tmp/flatsim-cov) and is removed at the end unless KEEP=1.
set -e
DIV=${1:-30}
D=${COV_DIR:-/tmp/flatsim-cov}
T=$(dirname $(rustc +nightly --print target-libdir))/bin
VERIF=$(cd $(dirname $0)/.. && pwd)
rm -rf $D; mkdir -p $D/prof $D/out
(cd $VERIF/flatsim && LLVM_PROFILE_FILE=$D/build-%p.profraw CARGO_NET_OFFLINE=true RUSTFLAGS="-C instrument-coverage" cargo +nightly build --offline --profile checked --target-dir $D/td 2>&1 | tail -1)
python3 - "$VERIF" "$D" "$DIV" <<'PY'
import subprocess, os, re, sys
verif, d, div = sys.argv[1], sys.argv[2], int(sys.argv[3])
ns = {}
exec(re.search(r'PLAN = \{.*?\n\}\n', open(f'{verif}/check').read(), re.S).group(0), ns)
procs = []
for pid, engs in ns['PLAN'].items():
    for eng, q, _ in engs:
        runs = 88 if eng == 'probe' else max(q // div, 500)
        env = dict(os.environ, LLVM_PROFILE_FILE=f'{d}/prof/{pid}-{eng}-%p.profraw')
        cmd = [f'{d}/td/checked/flatsim', 'batch' if eng == 'sim' else eng, '--prop', pid, '--runs', str(runs), '--seed', '20260926',
               '--threads', '2', '--tier', 'quick', '--profile', 'checked', '--max-secs', '120', '--out', f'{d}/out/{pid}-{eng}.json']
        procs.append((pid, eng, subprocess.Popen(cmd, env=env, stdout=subprocess.DEVNULL, stderr=subprocess.PIPE, text=True)))
for pid, eng, p in procs:
    _, err = p.communicate()
    if p.returncode:
        print('harness error', pid, eng, err[-300:]); sys.exit(2)
PY
$T/llvm-profdata merge -sparse $D/prof/*.profraw -o $D/all.profdata
$T/llvm-cov report $D/td/checked/flatsim -instr-profile=$D/all.profdata /repo/src
echo "--- lines compiled in but never executed (test modules excluded)"
$T/llvm-cov show $D/td/checked/flatsim -instr-profile=$D/all.profdata /repo/src 2>/dev/null | python3 -c "
import re,sys
cur=None; intest=False
for l in sys.stdin:
    if l.startswith('/repo'): cur=l.strip().rstrip(':'); intest=False; continue
    m=re.match(r'\s*(\d+)\|\s*([0-9.kM]*)\|(.*)',l)
    if not m: continue
    ln,cnt,src=m.groups()
    if re.search(r'mod tests?\b',src): intest=True
    if not intest and cnt=='0': print(f'{cur}:{ln}: {src.strip()[:100]}')
"
[ "$KEEP" = 1 ] || rm -rf $D
